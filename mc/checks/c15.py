"""C15 — breeding-value matrices round-trip through scaling without loss.

Layers
  L0  every raw matrix over a 5-symbol value alphabet (n<=4 taxa, t<=2 traits) -> from_numpy -> full value oracle
  H   explicit-state BFS over taxa-axis operation histories of the three breeding-value matrix classes,
      lock-step with a raw-value-per-taxon reference model (mc/ref/scaled.py)
  S   DenseScaledMatrix: every small matrix x (location, scale) variant x single operation, and BFS over
      rescale / unscale / transform / untransform histories
"""
from __future__ import annotations
import collections, importlib, itertools, math
import copy as _copy
import numpy

from .. import compat  # noqa: F401
from ..core import Violation, require, digest, same
from ..ref import scaled as R
from ..ref import scaled_dsm as DSM

ID = "C15"
TECHNIQUE = ("explicit-state BFS over taxa-axis operation histories on real breeding-value matrix objects in lock-step "
             "with a raw-value-per-taxon reference model (Fractions), plus complete small-scope enumeration of raw input "
             "matrices and of DenseScaledMatrix operation histories")
RULE = ("L0: one case = one raw matrix over {a,0,b,LARGE,NaN}^(n x t) or {0,e,f,H,H+tiny,NaN}^(n x t) -> from_numpy; H: one case = one transition "
        "(state, operation, arguments) reached by BFS with canonical-state dedup (state = class + all observable arrays), "
        "operands from a fixed pool, all index/slice/position arguments for the current size, copies, generic axis forms "
        "and in-place follow-ups on every returned object (source must stay intact) at the root; S: one case = one DenseScaledMatrix operation in a BFS over in-place histories; non-trivial = the operation "
        "changes the raw matrix or the stored representation; distinct by digest of (parent state, event)")
ASSUME = ["mc/compat.py restores removed numpy names only",
          "both value alphabets ({a,0,b,LARGE,NaN} and the tiny one {0,e,f,H,H+tiny,NaN}) are exactly representable, so whether "
          "a trait is constant is decided exactly; tolerance 256 eps x column magnitude (no absolute floor) for values that "
          "went through the scaling, a spread below that level may legitimately be seen as constant after a history",
          "operands of a structural operation have the same class and the same optional label arrays as the matrix",
          "summaries of a column with missing values may be NaN-propagating or NaN-skipping (the property does not say)"]

CHECK_ALIASING = True       # DESIGN C15: returned arrays must not alias internal state
NMAX = 4                    # largest number of taxa a generated operation may produce
SYMS = R.SYMS
CLASSES = {
    "BV": ("pybrops.popgen.bvmat.DenseBreedingValueMatrix", "DenseBreedingValueMatrix"),
    "EBV": ("pybrops.popgen.bvmat.DenseEstimatedBreedingValueMatrix", "DenseEstimatedBreedingValueMatrix"),
    "GEBV": ("pybrops.popgen.bvmat.DenseGenomicEstimatedBreedingValueMatrix", "DenseGenomicEstimatedBreedingValueMatrix"),
}
FIELDS = ("mat", "location", "scale", "taxa", "taxa_grp", "trait",
          "taxa_grp_name", "taxa_grp_stix", "taxa_grp_spix", "taxa_grp_len")
REBUILD = ("select", "delete", "insert", "adjoin", "concat")
NEWOBJ = REBUILD + ("copy",)               # operations that return a new object made from a live one
INPLACE_EDIT = ("append", "remove", "incorp")
REORDER = ("reorder", "sort", "group")
POISON = 7777.25


alphabet, concrete = R.alphabet, R.concrete


def cls_of(key):
    mod, name = CLASSES[key]
    return getattr(importlib.import_module(mod), name)


# ----------------------------------------------------------------------------
# real-object helpers
def _cp(x):
    return None if x is None else numpy.array(x, copy=True)


def snap(o):
    return tuple(_cp(getattr(o, f)) for f in FIELDS)


def snap_same(a, b):
    for f, x, y in zip(FIELDS, a, b):
        if not same(x, y):
            return f
    return None


def restore(cls, s):
    o = cls(mat=_cp(s[0]), location=_cp(s[1]), scale=_cp(s[2]), taxa=_cp(s[3]), taxa_grp=_cp(s[4]), trait=_cp(s[5]))
    o.taxa_grp_name, o.taxa_grp_stix, o.taxa_grp_spix, o.taxa_grp_len = _cp(s[6]), _cp(s[7]), _cp(s[8]), _cp(s[9])
    return o


_LABEL_SEED = [0]          # set by run_H / replay_H: the label strings rotate with VERIF_SEED, the scheme does not


def trait_names(t, labelled):
    """labelled == True: trait labels that are NOT in ascending order (the default for labelled matrices);
    labelled == "sorted": ascending labels.  (labelled False: no label arrays at all.)"""
    if labelled == "sorted":
        return [f"tr{j}" for j in range(t)]
    return [("yield", "height"), ("wt", "ht"), ("z_trait", "a_trait")][_LABEL_SEED[0] % 3][:t]


def label_kw(names, grps, t, labelled, with_trait=True):
    if not labelled:
        return {}
    kw = dict(taxa=numpy.array(list(names), dtype=object), taxa_grp=numpy.array(list(grps), dtype="int64"))
    if with_trait:
        kw["trait"] = numpy.array(trait_names(t, labelled), dtype=object)
    return kw


def build(cls, taxa, t, labelled):
    raw = numpy.array(R.raw_rows(taxa), dtype="float64").reshape(len(taxa), t)
    return cls.from_numpy(raw, **label_kw([tx[0] for tx in taxa], [tx[1] for tx in taxa], t, labelled))


# ----------------------------------------------------------------------------
# operand pool
def pool_desc(seed, t):
    a, z, b, L = alphabet(seed)
    pre = ["p", "q", "r"][seed % 3]
    return [
        dict(id="p0", kind="bv", names=[pre + "0a"], grps=[7], rows=[[L, z][:t]]),
        dict(id="p1", kind="bv", names=[pre + "1a", pre + "1b"], grps=[3, 7], rows=[[b, None][:t], [a, a][:t]]),
        dict(id="p2", kind="custom", names=[pre + "2a"], grps=[3], mat=[[0.5, -1.0][:t]], loc=[10.0, -3.0][:t], scale=[2.0, 4.0][:t]),
        dict(id="p3", kind="nd", names=[pre + "3a"], grps=[9], rows=[[z, b][:t]]),
    ]


class Pool:
    def __init__(self, cls, seed, t, labelled):
        self.cls, self.t, self.labelled = cls, t, labelled
        self.desc = {d["id"]: d for d in pool_desc(seed, t)}
        self.order = [d["id"] for d in pool_desc(seed, t)]
        self.model, self.snap = {}, {}
        for pid, d in self.desc.items():
            if d["kind"] == "custom":
                rows = [[R.frac(d["scale"][c]) * R.frac(d["mat"][i][c]) + R.frac(d["loc"][c]) for c in range(t)]
                        for i in range(len(d["mat"]))]
                mag = [abs(d["loc"][c]) + max(abs(d["scale"][c] * r[c]) for r in d["mat"]) for c in range(t)]
                self.model[pid] = R.make(d["names"], d["grps"], rows, mag)
                o = cls(mat=numpy.array(d["mat"], dtype="float64"), location=numpy.array(d["loc"], dtype="float64"),
                        scale=numpy.array(d["scale"], dtype="float64"), **label_kw(d["names"], d["grps"], t, labelled))
                self.snap[pid] = snap(o)
            else:
                self.model[pid] = R.make(d["names"], d["grps"], d["rows"])
                if d["kind"] == "bv":
                    self.snap[pid] = snap(build(cls, self.model[pid], t, labelled))
                else:
                    self.snap[pid] = numpy.array(R.raw_rows(self.model[pid]), dtype="float64").reshape(-1, t)

    def k(self, pid):
        return len(self.model[pid])

    def kind(self, pid):
        return self.desc[pid]["kind"]

    def fresh(self, pid):
        """a fresh real operand (object or ndarray) + keyword arguments"""
        d = self.desc[pid]
        if d["kind"] == "nd":
            return self.snap[pid].copy(), label_kw(d["names"], d["grps"], self.t, self.labelled, with_trait=False)
        return restore(self.cls, self.snap[pid]), {}

    def unchanged(self, pid, obj):
        if self.kind(pid) == "nd":
            return None if same(obj, self.snap[pid]) else "values"
        return snap_same(snap(obj), self.snap[pid])


# ----------------------------------------------------------------------------
# alphabet of events for a state with n taxa
def _uniq(xs):
    out, seen = [], set()
    for x in xs:
        k = repr(x)
        if k not in seen:
            seen.add(k)
            out.append(x)
    return out


def index_lists(n):
    out = []
    if n <= 3:
        for k in range(1, n + 1):
            out += [list(p) for p in itertools.permutations(range(n), k)]
    else:
        for k in range(1, n + 1):
            out += [list(c) for c in itertools.combinations(range(n), k)]
        out += [list(range(n))[::-1]] + [[(i + r) % n for i in range(n)] for r in range(1, n)]
    out.append([0, 0])
    if n >= 2:
        out.append([n - 1, 0, n - 1])
    out.append([-1])
    return _uniq([x for x in out if len(x) <= NMAX])


def delete_specs(n):
    out = []
    if n < 2:
        return out
    out += list(range(n)) + [-1]
    for a in range(n):
        for b in range(a + 1, n + 1):
            if b - a < n:
                out.append(["s", a, b, 1])
    if n >= 3:
        out.append(["s", 0, n, 2])
        out.append([n - 1, 0])
    for k in range(2, n):
        out += [list(c) for c in itertools.combinations(range(n), k)]
    return _uniq(out)


def insert_positions(n, k):
    out = list(range(n + 1))
    if k == 2:
        out += [[0, n], [n, 0]]
        if n >= 1:
            out.append([1, 1])
    return out


def perms(n):
    if n <= 1:
        return []
    if n <= 3:
        return [list(p) for p in itertools.permutations(range(n)) if list(p) != list(range(n))]
    return [list(range(n))[::-1], [1, 0, 3, 2], [1, 2, 3, 0], [3, 0, 1, 2], [0, 2, 1, 3], [2, 3, 0, 1]]


def events(n, pool, labelled):
    ev = []
    for idx in index_lists(n):
        ev.append(["select", "taxa", idx])
    for obj in delete_specs(n):
        ev.append(["delete", "taxa", obj])
    for pid in pool.order:
        k = pool.k(pid)
        if n + k > NMAX:
            continue
        for pos in insert_positions(n, k):
            ev.append(["insert", "taxa", pos, pid])
        ev.append(["adjoin", "taxa", pid])
        if pool.kind(pid) != "nd":
            ev.append(["concat", "taxa", ["self", pid]])
            ev.append(["concat", "taxa", [pid, "self"]])
            ev.append(["append", "taxa", pid])
            for pos in insert_positions(n, k):
                ev.append(["incorp", "taxa", pos, pid])
    if 2 * n <= NMAX:
        ev.append(["concat", "taxa", ["self", "self"]])
    if n + 3 <= NMAX:
        ev.append(["concat", "taxa", ["self", "p0", "p1"]])
    for obj in delete_specs(n):
        ev.append(["remove", "taxa", obj])
    for p in perms(n):
        ev.append(["reorder", "taxa", p])
    if labelled:
        ev.append(["sort", "taxa"])
        ev.append(["group", "taxa"])
    ev.append(["copy", "taxa", "copy"])          # obj.copy()
    ev.append(["copy", "taxa", "copy.copy"])     # copy.copy(obj)
    return ev


def _obj(spec):
    if isinstance(spec, int):
        return spec
    if len(spec) and spec[0] == "s":
        return slice(spec[1], spec[2], spec[3])
    return list(spec)


def method_name(ev):
    if ev[0] == "copy":
        return "__copy__"
    return ev[0] + "_taxa" if ev[1] == "taxa" else ev[0]


def opsig(cls, ev):
    q = getattr(cls, method_name(ev)).__qualname__
    return q if ev[1] == "taxa" else f"{q}(axis={0 if ev[1] == 'ax0' else -2})"


def apply(cls, obj, ev, pool, used):
    """Apply one event to the real object.  Returns the resulting object (obj itself for in-place operations).
    `used` collects (pid, real operand) for the operand-untouched check."""
    kind, form = ev[0], ev[1]
    gen = form != "taxa"
    ax = {"ax0": 0, "axm2": -2}.get(form)
    akw = {"axis": ax} if gen else {}
    m = getattr(obj, method_name(ev)) if kind != "concat" else getattr(cls, method_name(ev))

    def operand(pid):
        if pid == "self":
            return obj, {}
        o, kw = pool.fresh(pid)
        used.append((pid, o))
        return o, kw

    if kind == "copy":
        return obj.copy() if ev[2] == "copy" else _copy.copy(obj)
    if kind == "select":
        return m(ev[2], **akw)
    if kind == "delete":
        return m(_obj(ev[2]), **akw)
    if kind == "insert":
        o, kw = operand(ev[3])
        return m(_obj(ev[2]), o, **akw, **kw)
    if kind == "adjoin":
        o, kw = operand(ev[2])
        return m(o, **akw, **kw)
    if kind == "concat":
        return m([operand(p)[0] for p in ev[2]], **akw)
    if kind == "append":
        o, kw = operand(ev[2])
        m(o, **akw, **kw)
        return obj
    if kind == "remove":
        m(_obj(ev[2]), **akw)
        return obj
    if kind == "incorp":
        o, kw = operand(ev[3])
        m(_obj(ev[2]), o, **akw, **kw)
        return obj
    if kind == "reorder":
        m(numpy.array(ev[2], dtype="int64"), **akw)
        return obj
    if kind == "sort":
        if gen:
            m(None, **akw)
        else:
            m()
        return obj
    if kind == "group":
        m(**akw)
        return obj
    raise ValueError(kind)


def model_apply(taxa, fresh, ev, pool):
    kind = ev[0]
    if kind == "select":
        new = R.select(taxa, ev[2])
    elif kind in ("delete", "remove"):
        new = R.delete(taxa, ev[2])
    elif kind in ("insert", "incorp"):
        new = R.insert(taxa, ev[2], pool.model[ev[3]])
    elif kind in ("adjoin", "append"):
        new = R.adjoin(taxa, pool.model[ev[2]])
    elif kind == "concat":
        new = R.concat([taxa if p == "self" else pool.model[p] for p in ev[2]])
    elif kind == "reorder":
        new = R.select(taxa, ev[2])
    elif kind in ("sort", "group"):
        new = R.select(taxa, R.sort_order(taxa))
    elif kind == "copy":
        return taxa, fresh                    # same values, same stored representation
    else:
        raise ValueError(kind)
    if kind in REBUILD:
        fresh = True
    elif kind in INPLACE_EDIT:
        fresh = False
    return R.settle(new), fresh


# ----------------------------------------------------------------------------
# oracles
def nviol(ctx):
    return sum(v["count"] for v in ctx.violations.values())


def check_values(obj, taxa, t, sig):
    U = obj.unscale()
    n = len(taxa)
    require(isinstance(U, numpy.ndarray) and U.shape == (n, t) and obj.mat.shape == (n, t), sig + ":shape",
            lambda: f"unscale() shape {getattr(U, 'shape', None)}, mat shape {obj.mat.shape}, expected {(n, t)}")
    require(not numpy.shares_memory(U, obj.mat) or not CHECK_ALIASING, sig + ":unscale-returns-internal-array", "")
    for i, tx in enumerate(taxa):
        for c in range(t):
            v, u = tx[2][c], float(U[i, c])
            if v is None:
                require(math.isnan(u), sig + ":nan-contamination",
                        lambda: f"missing value of taxon {i} ({tx[0]}) trait {c} came back as {u}; unscale()={U.tolist()} expected {R.raw_rows(taxa)}")
            else:
                require(not math.isnan(u), sig + ":nan-contamination",
                        lambda: f"taxon {i} ({tx[0]}) trait {c}: raw value {float(v)} came back as NaN; unscale()={U.tolist()} expected {R.raw_rows(taxa)}")
                require(abs(u - float(v)) <= R.tol_cell(tx, c), sig + ":raw-values",
                        lambda: f"taxon {i} ({tx[0]}) trait {c}: unscale() gives {u!r}, raw value is {float(v)!r} (tol {R.tol_cell(tx, c):.3g}); "
                                f"unscale()={U.tolist()} expected {R.raw_rows(taxa)} location={obj.location.tolist()} scale={obj.scale.tolist()}")


def check_standardised(ctx, obj, taxa, t, sig, exact):
    """stored location / scale = NaN-skipping mean / population std of the raw values, unit scale for a constant
    trait.  Whether a trait is constant is decided exactly on the model's raw values; tolerances are relative to the
    column magnitude (no absolute floor), so a spread of 1e-12 in a tiny column must show up in the scale."""
    loc, sc = obj.location, obj.scale
    require(isinstance(loc, numpy.ndarray) and loc.shape == (t,) and isinstance(sc, numpy.ndarray) and sc.shape == (t,),
            sig + ":location-scale-shape", lambda: f"location {loc!r} scale {sc!r}")
    for c in range(t):
        cs = R.column_summary(taxa, c)
        if cs["all_nan"]:
            continue
        tol = R.tol_ls(taxa, c)
        l, s = float(loc[c]), float(sc[c])
        require(abs(l - cs["mean"]) <= tol, sig + ":location",
                lambda: f"trait {c}: stored location {l!r}, mean of the raw values {cs['mean']!r} (tol {tol:.3g}); raw={R.raw_rows(taxa)}")
        if cs["constant"]:
            degenerate = (not exact) and 0.0 < s <= tol
            if degenerate:
                ctx.flag("rounding-degenerate-constant-column")
            require(s == 1.0 or degenerate, sig + ":scale:constant-trait-not-unit",
                    lambda: f"trait {c} is constant but stored scale is {s!r} (expected 1); raw={R.raw_rows(taxa)}")
        else:
            collapsed = (not exact) and R.numerically_constant(cs, taxa, c) and s == 1.0
            if collapsed:
                ctx.flag("rounding-collapsed-spread")     # spread below the rounding level of the column's history
            else:
                ctx.count("scale-checked:tiny-spread" if cs["std"] < 1e-8 else "scale-checked:ordinary")
            require(collapsed or abs(s - cs["std"]) <= tol, sig + ":scale",
                    lambda: f"trait {c}: stored scale {s!r}, standard deviation of the raw values {cs['std']!r} (tol {tol:.3g}); raw={R.raw_rows(taxa)}")


def _fcol(col):
    """float column -> (plain dict, nan-skipping dict, argmax set, argmin set) computed without numpy"""
    pres = [v for v in col if not math.isnan(v)]
    if pres:
        n = len(pres)
        mean = math.fsum(pres) / n
        var = math.fsum((v - mean) ** 2 for v in pres) / n
        s = {"tmax": max(pres), "tmin": min(pres), "tmean": mean, "trange": max(pres) - min(pres), "tvar": var, "tstd": math.sqrt(var)}
        amax = {i for i, v in enumerate(col) if v == s["tmax"]}
        amin = {i for i, v in enumerate(col) if v == s["tmin"]}
    else:
        s = {k: R.NAN for k in R.VALUE_FNS}
        amax = amin = set()
    if len(pres) < len(col):
        first = next(i for i, v in enumerate(col) if math.isnan(v))
        return {k: [R.NAN, s[k]] for k in s}, amax | {first}, amin | {first}
    return {k: [s[k]] for k in s}, amax, amin


def _match(x, e, tol):
    if math.isnan(e):
        return math.isnan(x)
    return (not math.isnan(x)) and abs(x - e) <= tol


def check_summaries(ctx, cls, obj, taxa, fresh, built, t, case):
    """Every summary on both scales; each (function, scale) is judged separately so independent root causes get
    their own signature.  Returns the observed unscaled summaries (for the outcome digest)."""
    n = len(taxa)
    cols = [R.column_summary(taxa, c) for c in range(t)]
    stored = [_fcol([float(obj.mat[i, c]) for i in range(n)]) for c in range(t)]
    stored_mag = [max([0.0] + [abs(float(obj.mat[i, c])) for i in range(n) if not math.isnan(float(obj.mat[i, c]))]) for c in range(t)]
    pre = (obj.mat.copy(), obj.location.copy(), obj.scale.copy())
    observed = []

    def intact():
        return same(obj.mat, pre[0]) and same(obj.location, pre[1]) and same(obj.scale, pre[2])

    for fn in R.VALUE_FNS:
        for u in (True, False):
            q = f"{getattr(cls, fn).__qualname__}(unscale={u})"
            box = {}

            def call():
                box["r"] = getattr(obj, fn)(unscale=u)
            if not ctx.guard(call, case=case, sig_prefix=q + ":"):
                continue
            r = box["r"]
            ctx.count(f"cmp:{fn}:{'raw' if u else 'stored'}")
            try:
                require(isinstance(r, numpy.ndarray) and r.shape == (t,), q + ":shape", lambda: f"returned {r!r}")
                for c in range(t):
                    x = float(r[c])
                    if u:
                        acc, tol = cols[c][fn], R.summary_tol(fn, taxa, c, cols[c])
                    else:
                        acc = stored[c][0][fn]
                        tol = 1e-12 * stored_mag[c] * (stored_mag[c] if fn == "tvar" else 1.0)
                    if any(_match(x, e, tol) for e in acc):
                        ctx.count("summary-on-nan-column" if cols[c]["has_nan"] else "summary-on-complete-column")
                        continue
                    if not u:
                        kind = "mismatch-stored"
                    elif not fresh:
                        kind = "stale-after-inplace-edit"
                    elif R.numerically_constant(cols[c], taxa, c) and fn in ("tstd", "tvar") and x == 1.0:
                        kind = "constant-trait:reports-unit-scale"
                    else:
                        kind = "mismatch:after:" + built
                    raise Violation(f"{q}:{kind}",
                                    f"trait {c}: {fn}(unscale={u}) = {x!r}, {'raw' if u else 'stored'} values give {acc} (tol {tol:.3g}); "
                                    f"raw={R.raw_rows(taxa)} mat={obj.mat.tolist()} location={obj.location.tolist()} scale={obj.scale.tolist()}")
            except Violation as v:
                ctx.violation(v.sig, v.detail, case)
            if u:
                observed.append([float(v) for v in numpy.asarray(r, dtype=float).ravel()])
            if CHECK_ALIASING and isinstance(r, numpy.ndarray) and r.dtype.kind == "f" and r.flags.writeable:
                keep = r.copy()
                r[...] = POISON
                if not intact():
                    ctx.violation(f"{q}:returns-internal-array",
                                  f"writing into the array returned by {fn}(unscale={u}) changed the object's mat/location/scale", case)
                    r[...] = keep
    for fn in R.ARG_FNS:
        q = getattr(cls, fn).__qualname__
        box = {}

        def call():
            box["r"] = getattr(obj, fn)()
        if not ctx.guard(call, case=case, sig_prefix=q + ":"):
            continue
        r = box["r"]
        ctx.count(f"cmp:{fn}")
        try:
            require(isinstance(r, numpy.ndarray) and r.shape == (t,) and r.dtype.kind in "iu", q + ":shape", lambda: f"returned {r!r}")
            for c in range(t):
                acc = set(cols[c][fn])
                # values closer to the extreme than the rounding level of the column's history count as ties
                pres = [(i, float(tx[2][c])) for i, tx in enumerate(taxa) if tx[2][c] is not None]
                if pres:
                    ext = max(v for _, v in pres) if fn == "targmax" else min(v for _, v in pres)
                    acc |= {i for i, v in pres if abs(v - ext) <= 2 * R.tol_col(taxa, c)}
                require(int(r[c]) in acc, f"{q}:{'mismatch:after:' + built if fresh else 'stale-after-inplace-edit'}",
                        lambda: f"trait {c}: {fn}() = {int(r[c])}, raw values {[row[c] for row in R.raw_rows(taxa)]} have it at {sorted(acc)}")
        except Violation as v:
            ctx.violation(v.sig, v.detail, case)
        observed.append([int(v) for v in r.ravel()])
    return observed


def full_oracle(ctx, cls, obj, taxa, fresh, t, sig, case, standardised, exact, built=None):
    """values -> (location/scale) -> summaries.  Returns True iff the raw values are intact."""
    ok = ctx.guard(lambda: check_values(obj, taxa, t, sig), case=case, sig_prefix=sig + ":")
    if not ok:
        return False
    if standardised:
        if not ctx.guard(lambda: check_standardised(ctx, obj, taxa, t, sig, exact), case=case, sig_prefix=sig + ":"):
            return False
    obs = check_summaries(ctx, cls, obj, taxa, fresh, built or sig, t, case)
    ctx.outcome(digest((obs, R.raw_rows(taxa))))
    return True


def coverage_flags(ctx, taxa, t):
    n = len(taxa)
    ctx.flag(f"n={n}")
    ctx.flag(f"t={t}")
    for c in range(t):
        cs = R.column_summary(taxa, c)
        if cs["constant"] and not cs["has_nan"]:
            ctx.flag("constant-column")
        if cs["has_nan"]:
            ctx.flag("nan-column")
            if cs["all_nan"]:
                ctx.flag("all-nan-column")
            elif sum(1 for tx in taxa if tx[2][c] is not None) == 1 and n >= 2:
                ctx.flag("all-nan-but-one-column")
        if R.colmax(taxa, c) >= 1e5:
            ctx.flag("large-offset")
            if cs["constant"]:
                ctx.flag("large-constant-column")
        if not cs["has_nan"] and len(cs["targmax"]) > 1 and not cs["constant"]:
            ctx.flag("tied-maximum")


# ----------------------------------------------------------------------------
# L0: complete input enumeration
def run_L0(ctx, clskey, n, t, prefix, stride=1, offset=0, alpha="main"):
    cls = cls_of(clskey)
    seed = ctx.seed
    rest = n * t - len(prefix)
    ctx.flag(f"L0-alphabet:{alpha}")
    for ci, tail in enumerate(itertools.product(SYMS if alpha == "main" else R.TSYMS, repeat=rest)):
        if ci % stride != offset:
            continue
        cells = tuple(prefix) + tail
        rows = concrete([cells[i * t:(i + 1) * t] for i in range(n)], seed)
        L0_case(ctx, clskey, cls, rows, labelled=(ci % 4 != 0))


def L0_case(ctx, clskey, cls, rows, labelled):
    n, t = len(rows), len(rows[0])
    taxa = R.make([f"x{i}" for i in range(n)], [(i % 2) + 1 for i in range(n)], rows)
    case = dict(layer="L0", cls=clskey, labelled=labelled, rows=rows)
    sig = cls.from_numpy.__qualname__
    raw = numpy.array(R.raw_rows(taxa), dtype="float64").reshape(n, t)
    keep = raw.copy()
    box = {}
    before = nviol(ctx)
    ctx.evaluations += 1
    ctx.transitions += 1

    def mk():
        box["o"] = cls.from_numpy(raw, **label_kw([tx[0] for tx in taxa], [tx[1] for tx in taxa], t, labelled))
    if not ctx.guard(mk, case=case, sig_prefix=sig + ":"):
        return
    obj = box["o"]
    if not same(raw, keep):
        ctx.violation(sig + ":mutates-input", "from_numpy changed the array it was given", case)
    ctx.count(f"L0:{clskey}")
    coverage_flags(ctx, taxa, t)
    full_oracle(ctx, cls, obj, taxa, True, t, sig, case, standardised=True, exact=True)
    ctx.state(digest((clskey, snap(obj))))
    ctx.nontriv(digest((clskey, rows)))
    if nviol(ctx) == before:
        ctx.traces += 1
    if ctx.evaluations % 5003 == 1:
        ctx.sample(dict(case, location=obj.location.tolist(), scale=obj.scale.tolist(), mat=obj.mat.tolist()))


# ----------------------------------------------------------------------------
# H: BFS over histories
def inplace_followups(cls, res, pool, labelled):
    """Every in-place taxa operation the library offers, applied to an object that an operation has just returned.
    (What they do to `res` is judged by their own transitions; here only the SOURCE object is looked at afterwards.)"""
    n = res.ntaxa

    def p0():
        return pool.fresh("p0")[0]
    for f in ((lambda: res.reorder_taxa(numpy.arange(n)[::-1].copy())),
              (lambda: res.sort_taxa()) if labelled else None,
              (lambda: res.group_taxa()) if labelled else None,
              (lambda: res.append_taxa(p0())),
              (lambda: res.incorp_taxa(0, p0())),
              (lambda: res.remove_taxa(0)),
              (lambda: res.ungroup_taxa())):
        if f is None:
            continue
        try:
            f()
        except Exception:  # noqa: BLE001
            pass


WARM_QUERIES = ("tmax", "tmin", "tmean", "trange", "tstd", "tvar", "targmax", "targmin")


def warm(ctx, obj, psnap, sig, case):
    """Before the event: ask the object every read-only question once (raw values, summaries on both scales,
    so that whatever the object remembers from answering them is in place when the event is applied -- the
    event's successor is then judged as usual (its raw values must be those of the model).  The questions themselves
    must leave every observable field as it was."""
    for f in ([lambda: obj.unscale()] +
              [(lambda q=q, u=u: getattr(obj, q)(unscale=u)) for q in WARM_QUERIES for u in (True, False)]):
        try:
            f()
        except Exception:  # noqa: BLE001
            pass
    f = snap_same(snap(obj), psnap)
    if f is not None:
        ctx.violation(sig + ":query-changed-state", f"read-only queries (unscale, summaries) changed field {f}", case)


def step(ctx, cls, clskey, psnap, taxa, fresh, built, ev, pool, t, case, full, followups=False):
    """Apply one event to a fresh copy of the parent state.  Returns a dict: status 'exception' (no result),
    'pruned' (result exists but its raw values / standardisation are broken: successor not expanded) or 'ok';
    'snap' = snapshot of the resulting real object (None after an exception)."""
    sig = opsig(cls, ev)
    kind = ev[0]
    obj = restore(cls, psnap)
    used = []
    box = {}
    before = nviol(ctx)
    warm(ctx, obj, psnap, sig, case)
    ctx.evaluations += 1
    ctx.transitions += 1
    ctx.count(f"op:{clskey}:{method_name(ev)}")

    def do():
        box["res"] = apply(cls, obj, ev, pool, used)
    if not ctx.guard(do, case=case, sig_prefix=sig + ":"):
        ctx.count("pruned:exception")
        return dict(status="exception", snap=None)
    res = box["res"]
    if not isinstance(res, cls):
        ctx.violation(sig + ":result-type", f"returned {type(res).__name__}", case)
        return dict(status="exception", snap=None)
    rs = snap(res)
    ntaxa, nfresh = model_apply(taxa, fresh, ev, pool)
    nbuilt = sig if kind in REBUILD else built
    if kind in NEWOBJ:
        f = snap_same(snap(obj), psnap)
        if f is not None:
            ctx.violation(sig + ":mutates-self", f"copy-on-manipulation operation changed field {f} of the matrix it was called on", case)
        if res is obj:
            ctx.violation(sig + ":returns-self", "copy-on-manipulation operation returned the object itself", case)
    for pid, o in used:
        f = pool.unchanged(pid, o)
        if f is not None:
            ctx.violation(sig + ":mutates-operand", f"operand {pid}: field {f} changed", case)
    ok = ctx.guard(lambda: check_values(res, ntaxa, t, sig), case=case, sig_prefix=sig + ":")
    if ok and kind in REBUILD:
        ok = ctx.guard(lambda: check_standardised(ctx, res, ntaxa, t, sig, False), case=case, sig_prefix=sig + ":")
    if not ok:
        ctx.count("pruned:broken-successor")
        return dict(status="pruned", snap=rs)
    if full:
        obs = check_summaries(ctx, cls, res, ntaxa, nfresh, nbuilt, t, case)
        ctx.outcome(digest((obs, R.raw_rows(ntaxa))))
    changed = snap_same(rs, psnap) is not None
    if changed:
        ctx.flag(f"changes:{kind}")
    if kind == "copy" and changed:
        ctx.violation(sig + ":copy-differs", f"field {snap_same(rs, psnap)} of the copy differs from the source", case)
    if kind in NEWOBJ and (followups or kind == "copy"):
        # the new object must be independent of the live source: whatever in-place operation is applied to the
        # result, the source keeps its full state and still unscales to its raw values
        inplace_followups(cls, res, pool, pool.labelled)
        ctx.count("independence-checks")
        f = snap_same(snap(obj), psnap)
        if f is not None:
            ctx.violation(sig + ":result-shares-state-with-source",
                          f"in-place operations on the returned object changed field {f} of the source object", case)
        else:
            ctx.guard(lambda: check_values(obj, taxa, t, sig + ":source-after-inplace-ops-on-result"), case=case, sig_prefix=sig + ":")
    if nviol(ctx) == before:
        ctx.traces += 1
    return dict(status="ok", snap=rs, taxa=ntaxa, fresh=nfresh, built=nbuilt, changed=changed)


def generic_variant(ctx, cls, clskey, psnap, ev, form, pool, case, spec):
    """axis-generic spelling == taxa-specific spelling: same resulting state, or an exception in both."""
    gev = [ev[0], form] + list(ev[2:])
    sig = opsig(cls, gev)
    obj = restore(cls, psnap)
    ctx.evaluations += 1
    ctx.transitions += 1
    ctx.count(f"op:{clskey}:{method_name(gev)}:generic")
    err = None
    try:
        gs = snap(apply(cls, obj, gev, pool, []))
    except Exception as e:  # noqa: BLE001
        gs, err = None, f"{type(e).__name__}: {e}"
    ss = spec["snap"]
    if (gs is None) != (ss is None):
        ctx.violation(sig + ":differs-from-specific",
                      f"generic form {'raised ' + str(err) if gs is None else 'succeeded'} while {method_name(ev)} "
                      f"{'raised' if ss is None else 'succeeded'}", case)
    elif gs is not None and snap_same(gs, ss) is not None:
        ctx.violation(sig + ":differs-from-specific", f"field {snap_same(gs, ss)} differs from the result of {method_name(ev)}", case)
    else:
        ctx.traces += 1


CTOR_FORMS = ("pyint", "pyfloat", "i8", "i4", "f4", "f8")
CTOR_VALUES = {   # form -> (location values, scale values); exactly representable in the form's type
    "pyint": ([3, 3], [2, 2]), "pyfloat": ([0.5, 0.5], [2.0, 2.0]),
    "i8": ([3, -2], [2, 4]), "i4": ([0, 5], [1, 3]), "f4": ([0.5, -2.0], [2.0, 0.25]), "f8": ([3.0, -2.0], [2.0, 4.0]),
}


def ctor_args(form, t):
    loc, sc = CTOR_VALUES[form]
    if form == "pyint":
        return int(loc[0]), int(sc[0])
    if form == "pyfloat":
        return float(loc[0]), float(sc[0])
    dt = DSM.FORM_DTYPE[form]
    return numpy.array(loc[:t], dtype=dt), numpy.array(sc[:t], dtype=dt)


def init_state(cls, clskey, labelled, rows, seed, ctor=None):
    """Root of a history.  ctor None: `rows` are raw values, the object is built by from_numpy.  ctor = argument form:
    `rows` is the STORED matrix and the object is built by the constructor with explicit location / scale given in
    that form (python int / float scalars, int64 / int32 / float32 / float64 arrays); its raw values are
    scale * mat + location, and every form has to behave like the float64 one."""
    n0, t = len(rows), len(rows[0])
    _LABEL_SEED[0] = seed
    pre = ["x", "tx", "g"][seed % 3]
    names, grps = [f"{pre}{i}" for i in range(n0)], [[2, 1, 2, 5][i % 4] for i in range(n0)]
    pool = Pool(cls, seed, t, labelled)
    base = dict(layer="H", cls=clskey, labelled=labelled, init=rows, seed=seed)
    if ctor is None:
        taxa0 = R.make(names, grps, rows)
        return taxa0, t, pool, base, build(cls, taxa0, t, labelled), cls.from_numpy.__qualname__
    base["ctor"] = ctor
    loc, sc = CTOR_VALUES[ctor]
    raw = [[R.frac(sc[c]) * R.frac(rows[i][c]) + R.frac(loc[c]) for c in range(t)] for i in range(n0)]
    mag = [abs(loc[c]) + max(abs(sc[c] * rows[i][c]) for i in range(n0)) for c in range(t)]
    taxa0 = R.make(names, grps, raw, mag)
    larg, sarg = ctor_args(ctor, t)
    obj = cls(mat=numpy.array(rows, dtype="float64"), location=larg, scale=sarg, **label_kw(names, grps, t, labelled))
    return taxa0, t, pool, base, obj, cls.__init__.__qualname__ + f"[{ctor}]"


def run_H(ctx, clskey, labelled, rows_sym, depth, part, nparts, ctor=None):
    cls = cls_of(clskey)
    seed = ctx.seed
    rows = concrete(rows_sym, seed)
    taxa0, t, pool, base, obj0, b0 = init_state(cls, clskey, labelled, rows, seed, ctor)
    std = ctor is None                       # only from_numpy promises a centred / scaled representation
    if ctor is not None:
        ctx.flag(f"ctor-form:{ctor}")
    if part == 0:
        ctx.evaluations += 1
        ctx.transitions += 1
        coverage_flags(ctx, taxa0, t)
        root_ok = full_oracle(ctx, cls, obj0, taxa0, True, t, b0, dict(base, history=[]), std, True)
    else:
        try:
            check_values(obj0, taxa0, t, b0)
            if std:
                check_standardised(ctx, obj0, taxa0, t, b0, True)
            root_ok = True
        except Exception:  # noqa: BLE001  (recorded by part 0)
            root_ok = False
    if not root_ok:
        ctx.count("pruned:broken-root")        # a broken initial state is reported once, not once per operation
        return
    s0 = snap(obj0)
    seen = {digest((clskey, s0, R.colmags(taxa0), True))}
    ctx.state(digest((clskey, s0, R.colmags(taxa0), True)))
    frontier = collections.deque([((), s0, taxa0, True, b0, 0)])
    ctx.flag("labelled" if labelled else "unlabelled")
    ctx.flag("trait-labels:" + ("absent" if not labelled else "sorted" if labelled == "sorted" else "unsorted" if t >= 2 else "single"))
    while frontier:
        hist, ps, taxa, fresh, built, d = frontier.popleft()
        if d >= depth:
            continue
        for k, ev in enumerate(events(len(taxa), pool, labelled)):
            if d == 0 and k % nparts != part:
                continue
            case = dict(base, history=list(hist) + [ev])
            out = step(ctx, cls, clskey, ps, taxa, fresh, built, ev, pool, t, case, full=False, followups=(d == 0))
            _flag_event(ctx, ev, pool)
            if d == 0 and ev[0] != "copy":
                for form in ("ax0", "axm2"):
                    generic_variant(ctx, cls, clskey, ps, ev, form, pool, dict(base, history=[[ev[0], form] + list(ev[2:])]), out)
            if out["status"] != "ok":
                continue
            rs, ntaxa = out["snap"], out["taxa"]
            if out["changed"]:
                ctx.nontriv(digest((clskey, ps, ev)))
            # canonical state = every observable array of the real object + everything the oracle's judgement of
            # future states depends on (tolerance magnitudes, freshness): merged states have identical futures
            key = digest((clskey, rs, R.colmags(ntaxa), out["fresh"]))
            if key in seen:
                continue
            seen.add(key)
            ctx.state(key)
            coverage_flags(ctx, ntaxa, t)
            # summaries are a function of the state: judged once per distinct state
            obs = check_summaries(ctx, cls, restore(cls, rs), ntaxa, out["fresh"], out["built"], t, case)
            ctx.outcome(digest((obs, R.raw_rows(ntaxa))))
            frontier.append((hist + (ev,), rs, ntaxa, out["fresh"], out["built"], d + 1))
            if len(seen) % 997 == 1:
                ctx.sample(dict(case, raw_after=R.raw_rows(ntaxa), location=rs[1].tolist(), scale=rs[2].tolist()))


def _flag_event(ctx, ev, pool):
    kind = ev[0]
    if kind in ("delete", "remove"):
        o = ev[2]
        ctx.flag("delete-arg:" + ("int" if isinstance(o, int) else "slice" if o and o[0] == "s" else "list"))
    if kind in ("insert", "incorp"):
        ctx.flag("insert-pos:" + ("int" if isinstance(ev[2], int) else "list"))
        ctx.flag(f"operand:{pool.kind(ev[3])}")
    if kind in ("adjoin", "append"):
        ctx.flag(f"operand:{pool.kind(ev[2])}")
    if kind == "select" and len(set(ev[2])) < len(ev[2]):
        ctx.flag("select-repeated-index")


# ----------------------------------------------------------------------------
# initial states of the history layer (symbolic; made concrete by the seed's alphabet)
INIT_T2 = [
    [["a", "b"], ["z", "b"], ["b", "b"]],                   # distinct column | constant column
    [["L", "N"], ["a", "z"], ["z", "N"]],                   # large offset | all-NaN-but-one
    [["b", "a"], ["N", "L"], ["b", "L"]],                   # tie + NaN | tied large maximum
    [["L", "z"], ["L", "z"], ["L", "a"]],                   # large constant | tie at maximum
    [["a", "L"], ["b", "L"]],                               # n=2
    [["N", "z"], ["b", "z"]],                               # n=2 NaN-but-one | constant zero
    [["b", "N"]],                                           # n=1, all-NaN column
    [["L", "a"]],                                           # n=1
    [["a", "z"], ["z", "z"], ["b", "N"], ["L", "b"]],       # n=4
    [["e", "H"], ["f", "G"], ["z", "H"]],                   # tiny spread | offset + tiny pair (std < 1e-9, not constant)
]
INIT_T1 = [
    [["a"], ["z"], ["b"]],
    [["L"], ["L"], ["L"]],
    [["N"], ["z"], ["N"]],
    [["L"], ["a"]],
    [["z"]],
    [["e"], ["z"]],                                          # tiny spread, n=2
]


def h_inits(tier):
    out = []
    for r in INIT_T2 + INIT_T1:
        out.append(("BV", True, r))
    for r in (INIT_T2[0], INIT_T2[2], INIT_T2[4], INIT_T1[0]):
        out.append(("BV", False, r))
    for r in (INIT_T2[0], INIT_T2[4]):
        out.append(("BV", "sorted", r))          # ascending trait labels (labelled True = labels not in ascending order)
    for key in ("EBV", "GEBV"):
        # the subclasses share every method with the base class (they differ in the constructor signature only):
        # quick gives them a cover of the shortcut cases, thorough the complete list
        for r in ((INIT_T2 + INIT_T1) if tier == "thorough" else (INIT_T2[0], INIT_T2[1], INIT_T2[4], INIT_T1[1], INIT_T2[6])):
            out.append((key, True, r))
        out.append((key, False, INIT_T2[5]))
    return out


# ----------------------------------------------------------------------------
def shards(tier, seed):
    T = tier == "thorough"
    out = []
    # L0 -------------------------------------------------------------
    for t in (1, 2):
        for n in (1, 2, 3, 4):
            cells = n * t
            if cells <= 5:
                out.append(("L0", "BV", n, t, (), 1, 0, "main"))
            elif cells == 6:
                for s in SYMS:
                    out.append(("L0", "BV", n, t, (s,), 1, 0, "main"))
            elif T:
                for p in itertools.product(SYMS, repeat=3):
                    out.append(("L0", "BV", n, t, p, 1, 0, "main"))
            else:
                # quick: n=4,t=2 is covered for every column pattern of trait 0 x a stride of the rest
                for p in itertools.product(SYMS, repeat=2):
                    out.append(("L0", "BV", n, t, p, 25, (SYMS.index(p[0]) * 5 + SYMS.index(p[1])) % 25, "main"))
    for key in ("EBV", "GEBV"):
        for t in (1, 2):
            for n in ((1, 2, 3) if T else (1, 2)):
                if n * t <= 4:
                    out.append(("L0", key, n, t, (), 1, 0, "main"))
                else:
                    for s in SYMS:
                        out.append(("L0", key, n, t, (s,), 1, 0, "main"))
    # L0, second alphabet (tiny magnitudes, offset + tiny pair): 6 symbols
    TS = R.TSYMS
    for t in (1, 2):
        for n in (1, 2, 3, 4):
            cells = n * t
            if cells <= 4:
                out.append(("L0", "BV", n, t, (), 1, 0, "tiny"))
            elif cells == 6:
                for p in itertools.product(TS, repeat=2):
                    out.append(("L0", "BV", n, t, p, 1, 0, "tiny"))
            elif T:
                for p in itertools.product(TS, repeat=3):
                    out.append(("L0", "BV", n, t, p, 1, 0, "tiny"))
            else:
                for p in itertools.product(TS, repeat=2):
                    out.append(("L0", "BV", n, t, p, 36, (TS.index(p[0]) * 6 + TS.index(p[1])) % 36, "tiny"))
    for key in ("EBV", "GEBV"):
        for t in (1, 2):
            for n in (1, 2):
                out.append(("L0", key, n, t, (), 1, 0, "tiny"))
    # H --------------------------------------------------------------
    depth = 3 if T else 2
    for clskey, labelled, rows in h_inits(tier):
        nparts = (12 if len(rows) >= 2 else 4) if T else (4 if len(rows) >= 2 else 1)
        for part in range(nparts):
            out.append(("H", clskey, labelled, rows, depth, part, nparts, None))
    # roots built by the constructor with explicit location / scale in every documented argument form
    crow2, crow1 = [["a", "z"], ["b", "a"]], [["a"], ["z"], ["b"]]
    for clskey, forms in (("BV", CTOR_FORMS), ("EBV", ("pyint", "f4")), ("GEBV", ("pyint", "i4"))):
        for form in forms:
            for rows in ((crow2, crow1) if (T or clskey == "BV") else (crow2,)):
                nparts = 4 if T else 2
                for part in range(nparts):
                    out.append(("H", clskey, True, rows, depth, part, nparts, form))
    # S --------------------------------------------------------------
    out += DSM.shards(tier, seed)
    # long shards first (load balance on the fork pool); the order has no influence on what is explored
    order = {"H": 0, "S2": 1, "S1": 2, "S1T": 2, "L0": 3}
    return sorted(out, key=lambda sp: order[sp[0]])


def run_shard(spec, ctx):
    ctx.bounds.update({"n_taxa_max": NMAX, "n_trait_max": 2, "value_alphabet": list(alphabet(ctx.seed)) + ["NaN"],
                       "history_depth": 3 if ctx.tier == "thorough" else 2, "tolerance_rel_to_column_magnitude": R.TOL, "tiny_alphabet": list(R.tiny_alphabet(ctx.seed)) + [0.0, "NaN"],
                       "L0_n4_t2": "complete" if ctx.tier == "thorough" else "1/25 stride per trait-0 prefix"})
    if spec[0] == "L0":
        _, clskey, n, t, prefix, stride, offset, alpha = spec
        run_L0(ctx, clskey, n, t, prefix, stride, offset, alpha)
    elif spec[0] == "H":
        _, clskey, labelled, rows, depth, part, nparts, ctor = spec
        run_H(ctx, clskey, labelled, rows, depth, part, nparts, ctor)
    else:
        DSM.run_shard(spec, ctx)


def finalize(ctx, tier, seed):
    c, f = ctx.counters, ctx.flags
    for key in CLASSES:
        assert c.get(f"L0:{key}", 0) > 0, key
        for m in ("select", "delete", "insert", "adjoin", "concat", "append", "remove", "incorp", "reorder", "sort", "group"):
            assert c.get(f"op:{key}:{m}_taxa", 0) > 0, (key, m)
            assert c.get(f"op:{key}:{m}:generic", 0) > 0, (key, m)
    # every operation whose result could be followed up changed the state at least once (append / incorp / concat are
    # applied too — see the op: counters above — but on the unchanged tree their results are broken and pruned)
    for k in ("select", "delete", "insert", "adjoin", "remove", "reorder", "sort", "group"):
        assert f"changes:{k}" in f, k
    for fl in ("constant-column", "nan-column", "all-nan-column", "all-nan-but-one-column", "large-offset",
               "large-constant-column", "tied-maximum", "n=1", "n=2", "n=3", "n=4", "t=1", "t=2", "labelled", "unlabelled",
               "delete-arg:int", "delete-arg:slice", "delete-arg:list", "insert-pos:int", "insert-pos:list",
               "operand:bv", "operand:custom", "operand:nd", "select-repeated-index"):
        assert fl in f, fl
    for fn in R.VALUE_FNS:
        assert c.get(f"cmp:{fn}:raw", 0) > 0 and c.get(f"cmp:{fn}:stored", 0) > 0, fn
    for fn in R.ARG_FNS:
        assert c.get(f"cmp:{fn}", 0) > 0, fn
    assert c.get("summary-on-complete-column", 0) > 1000 and c.get("summary-on-nan-column", 0) > 100
    # non-constant traits with a spread far below 1e-8 had their stored scale compared (relative to the column
    # magnitude) with the exact standard deviation; copies / new objects were exercised for independence
    assert "L0-alphabet:tiny" in f and "L0-alphabet:main" in f
    assert c.get("scale-checked:tiny-spread", 0) > 1000 and c.get("scale-checked:ordinary", 0) > 1000
    assert c.get("independence-checks", 0) > 100
    for key in CLASSES:
        assert c.get(f"op:{key}:__copy__", 0) > 0, key
    for form in CTOR_FORMS:
        assert f"ctor-form:{form}" in f, form
    for k in ("absent", "sorted", "unsorted"):
        assert f"trait-labels:{k}" in f, k
    assert len(ctx.outcomes) > 500, len(ctx.outcomes)
    assert len(ctx.states) > 1000, len(ctx.states)
    DSM.finalize(ctx, tier, seed)


def replay(case, ctx):
    if case["layer"] == "L0":
        L0_case(ctx, case["cls"], cls_of(case["cls"]), case["rows"], case["labelled"])
    elif case["layer"] == "H":
        replay_H(ctx, case)
    else:
        DSM.replay(case, ctx)


def replay_H(ctx, case):
    clskey, labelled, rows, seed = case["cls"], case["labelled"], case["init"], case["seed"]
    cls = cls_of(clskey)
    taxa, t, pool, base, obj, built = init_state(cls, clskey, labelled, rows, seed, case.get("ctor"))
    full_oracle(ctx, cls, obj, taxa, True, t, built, dict(base, history=[]), case.get("ctor") is None, True)
    ps, fresh = snap(obj), True
    hist = []
    for ev in case["history"]:
        hist.append(ev)
        c = dict(base, history=list(hist))
        spec_ev = [ev[0], "taxa"] + list(ev[2:])
        out = step(ctx, cls, clskey, ps, taxa, fresh, built, spec_ev, pool, t, c, full=True, followups=True)
        if ev[1] != "taxa":
            generic_variant(ctx, cls, clskey, ps, spec_ev, ev[1], pool, c, out)
        if out["status"] != "ok":
            return
        ps, taxa, fresh, built = out["snap"], out["taxa"], out["fresh"], out["built"]
