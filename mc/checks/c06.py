"""C06 — optimisers return feasible, truthfully evaluated solutions.

Three layers, reported separately (counters L1:*, L2:*, L3:*):

L1  SortingSubsetOptimizationAlgorithm / SteepestDescentSubsetHillClimber /
    SortingSteepestDescentSubsetHillClimber end to end on every tiny problem x EVERY answer the
    hill-climber's initial generator call can return (stateless DFS over the choice points).
L2  the variation operators of pymoo_addon.py as transitions of the validity invariant: every valid
    parent (pair) x every answer of the numpy.random.* functions they call.
L3  the 13 genetic-algorithm classes end to end: tiny problems x hyper-parameters x an explicit finite
    list of pinned generator states (NOT exhaustive in the generator dimension).
"""
from __future__ import annotations
import contextlib
import io
import itertools
import numpy

from .. import compat  # noqa: F401
import hashlib
from ..core import Violation, require, digest, close
from ..env import ScriptedGenerator, ScriptedRandomState, TWO53
from ..explore import explore, Chooser
from ..ref import optim as R

ID = "C06"
TECHNIQUE = ("bounded exhaustive enumeration on the real code: (L1) all tiny subset problems x every answer of the "
             "hill-climber's initial generator call (stateless DFS with prefix replay) against brute force over all "
             "C(n,k) subsets and a complete 1-exchange neighbourhood scan; (L2) every variation operator as a transition "
             "of the validity invariant over all valid parents x all answers of the numpy.random functions it calls; "
             "(L3) 13 GA classes x tiny problems x hyper-parameters x a finite list of pinned generator states, "
             "re-evaluating every returned decision")
RULE = ("L1: one execution = (algorithm, problem = (n<=5 candidates [thorough: also n=6,k<=3], k<=n, per-candidate score "
        "vector over a 3-value alphabet incl. ties [2 values for the largest (n,k), see bounds], separable or "
        "pair-interaction or ORDER-DEPENDENT objective (position weights / non-symmetric consecutive-pair table), objective "
        "weight +1/-1, constraint kind, constructed directly or reached through a setter history), one answer of "
        "rng.choice) run through minimize(); non-trivial = the returned set differs from the initial draw / k<n with "
        "non-constant scores. L2: one transition = (operator, problem, parent individual(s) as ordered tuples, answer "
        "vector of choice/randint/random/binomial); non-trivial = output differs from input. L3: one execution = "
        "(class, problem, pop_size, ngen, pinned seed); distinct by digest of the case")
ASSUME = ["numpy's generators can return exactly the answers injected (k-tuples of pool members, with repeats iff "
          "replace=True; integers in [low,high); multiples of 2^-53 in [0,1); binomial counts 0..n)",
          "mc/compat.py restores removed numpy names only",
          "pymoo 0.6.2 as installed; its survival/selection code is trusted base, its internal generator is pinned by "
          "patching numpy.random.default_rng inside the harness process (L3 only)",
          "L3 enumerates a finite explicit list of generator states: it is exhaustive w.r.t. problems and "
          "hyper-parameters only; the universally quantified feasibility claim for the GAs rests on L2 (closure of the "
          "operators) + pymoo never inventing individuals",
          "operators of pymoo_addon.py that no optimiser class references (MultiObjectiveStochasticHillClimberMutation, "
          "MultiObjectiveStochasticDescentHillClimberMutation, MutatorF) are out of scope",
          "objective data are exactly representable (dyadic) so that ties are exact"]

SORT = "SortingSubsetOptimizationAlgorithm"
HILL = "SteepestDescentSubsetHillClimber"
SHILL = "SortingSteepestDescentSubsetHillClimber"
HILL_RS = HILL + "[RandomState]"          # same class, rng is a numpy.random.RandomState
HIST = "[setters]"                         # suffix: the problem object is reached through a setter history
REUSED = "[reused]"                        # suffix: the optimiser object has minimised a sibling problem before


def _dg(*parts):
    """cheap digest of primitives / nested lists (repr is canonical for these)."""
    return hashlib.blake2b(repr(parts).encode(), digest_size=8).digest()


def _eq(got, exp):
    """got: reported (1,m) array row, exp: fresh (m,) array; rel 1e-9, NaN==NaN."""
    if got.shape != exp.shape:
        return False
    for a, b in zip(got.tolist(), exp.tolist()):
        if a != b and not (a != a and b != b) and not abs(a - b) <= 1e-9 * max(abs(a), abs(b)) + 1e-12:
            return False
    return True


def _algo_cls(name):
    import importlib
    return getattr(importlib.import_module(f"pybrops.opt.algo.{name}"), name)


# ----------------------------------------------------------------------------
# value alphabets (VERIF_SEED rotates values, never structure)
LABELS = [[3, 7, 1, 9, 4, 6], [10, 11, 12, 13, 14, 15], [5, 2, 8, 0, 6, 1]]
SCORES = [(-1.0, 0.0, 2.0), (0.5, 1.5, 4.0), (-3.0, -0.5, 1.0)]
UNIT = [1.0, 0.5, 2.0]
PAIRS = ("adj", "ends", "par")
CONS = ("none", "ineq", "eq", "both", "infeasible", "quota")


def pair_table(kind, n, u):
    t = [[0.0] * n for _ in range(n)]
    for i in range(n):
        for j in range(n):
            if i == j:
                continue
            a, b = min(i, j), max(i, j)
            if kind == "adj":
                v = 3 * u if b - a == 1 else 0.0
            elif kind == "ends":
                v = -3 * u if (a, b) == (0, n - 1) else (2 * u if (a, b) == (0, 1) else 0.0)
            else:
                v = u if (a + b) % 2 == 0 else -u
            t[i][j] = v
    return t


POSW = [1.0, 0.5, 2.0, 0.25, 1.5, 0.75]          # unequal position weights (dyadic)
ORDER = ("pos", "opair")                            # objective kinds whose value depends on the ORDER of the decision vector


def opair_table(n, u):
    """NON-symmetric table read over consecutive positions (x_a, x_{a+1}), e.g. (female, male) cross values"""
    return [[0.0 if i == j else u * ((3 * i + j) % 4) for j in range(n)] for i in range(n)]


def constraints(kind, n):
    d = {}
    if kind == "slack":          # SIGNED slack (distinct, possibly negative values among feasible decisions) + a signed
        #                            equality residual inside pymoo's 1e-4 tolerance: every returned row has its own G/H values
        d["ineq"] = [dict(w=[1, 2, 3, 4, 5, 6][:n], cap=100, signed=True)]
        d["eq"] = [dict(w=[3, 1, 4, 1, 5, 9][:n], target=2, scale=2.0 ** -17)]
    elif kind == "oineq":          # order-dependent: position-weighted knapsack
        d["ineq"] = [dict(w=[2, 0, 1, 0, 1, 2][:n], cap=1, pw=POSW)]
    elif kind == "ineq":
        d["ineq"] = [dict(w=[1, 0, 1, 0, 1, 0][:n], cap=1)]
    elif kind == "eq":
        d["eq"] = [dict(w=[1, 1, 0, 0, 0, 0][:n], target=1)]
    elif kind == "both":
        d["ineq"] = [dict(w=[2, 1, 0, 0, 0, 0][:n], cap=0)]
        d["eq"] = [dict(w=[0, 0, 1, 1, 1, 1][:n], target=1)]
        d["ineq_wt"] = [2.0]
    elif kind == "infeasible":
        d["ineq"] = [dict(w=[1, 2, 1, 2, 1, 2][:n], cap=0)]
    elif kind == "quota":          # two unmeetable count-valued quotas: every decision is infeasible with the SAME total
        #                            violation (k) but its own per-component split -> every exchange is a violation tie
        d["ineq"] = [dict(w=[1, 0, 1, 0, 1, 0][:n], cap=0), dict(w=[0, 1, 0, 1, 0, 1][:n], cap=0)]
    return d


def subset_spec(seed, n, k, scores, okind="sep", wt=1.0, con="none", scores2=None, okind2="sep"):
    u = UNIT[seed % 3]

    def one(sc, ok):
        if ok == "pos":
            return dict(s=list(sc), pair=None, posw=POSW)
        if ok == "opair":
            return dict(s=list(sc), pair=None, opair=opair_table(n, u))
        return dict(s=list(sc), pair=None if ok == "sep" else pair_table(ok, n, u))
    obj = [one(scores, okind)]
    wts = [wt]
    if scores2 is not None:
        obj.append(one(scores2, okind2))
        wts.append(1.0)
    sp = dict(kind="subset", cand=LABELS[seed % 3][:n], k=k, obj=obj, obj_wt=wts)
    sp.update(constraints(con, n))
    return sp


# 'long descent' family: hand-searched pair-interaction tables over n = 8..9 candidates for which steepest descent needs
# >= k+2 exchanges from some starts (max 4 / 5 / 7 exchanges): t[i][j] = ((a*i*i + b*i*j + c*j) mod m) - m//2 for i < j
LONG = ((8, 2, (3, 4, 1, 9)), (8, 3, (0, 5, 4, 11)), (9, 3, (4, 1, 2, 11)))
LONG_LABELS = [[3, 7, 1, 9, 4, 6, 12, 10, 15], [10, 11, 12, 13, 14, 15, 16, 17, 18], [5, 2, 8, 0, 6, 1, 11, 14, 13]]


def long_spec(seed, n, k, par):
    a, b, c, m = par
    u = UNIT[seed % 3]
    t = [[0.0 if i == j else u * float(((a * min(i, j) ** 2 + b * min(i, j) * max(i, j) + c * max(i, j)) % m) - m // 2)
          for j in range(n)] for i in range(n)]
    return dict(kind="subset", cand=LONG_LABELS[seed % 3][:n], k=k, obj=[dict(s=[0.0] * n, pair=t)], obj_wt=[1.0])


def hist_spec(spec):
    """a deliberately different problem of the same encoding and number of objectives: the starting point of a setter
    history that ends in `spec`"""
    nobj = len(spec["obj"])
    if spec["kind"] == "subset":
        n, k = len(spec["cand"]), spec["k"]
        ka = k - 1 if k > 1 else min(n, 2)
        cand = [c + 20 for c in reversed(spec["cand"])]
        return dict(kind="subset", cand=cand, k=ka, obj=[dict(s=[float((3 * i + j) % 4) for i in range(n)], pair=None) for j in range(nobj)],
                    obj_wt=[-w for w in spec.get("obj_wt", [1.0] * nobj)])
    d = len(spec["lo"])
    if spec["kind"] == "binary":
        lo, hi = [0] * d, [1] * d
    elif spec["kind"] == "integer":
        lo, hi = [a - 2 for a in spec["lo"]], [b + 3 for b in spec["hi"]]
    else:
        lo, hi = [a - 2.0 for a in spec["lo"]], [b + 3.0 for b in spec["hi"]]
    return dict(kind=spec["kind"], lo=lo, hi=hi, obj=[dict(a=[0.0] * d, t=[0.0] * d, b=[1.0 + j] * d) for j in range(nobj)],
                obj_wt=[-w for w in spec.get("obj_wt", [1.0] * nobj)])


def sibling_spec(spec):
    """a problem of EQUAL dimensions (n, k / box size, nobj, constraint counts) but different candidate labels / bounds and
    different objective data: what a reused optimiser object must not confuse with `spec`"""
    import copy
    sp = copy.deepcopy(spec)
    if spec["kind"] == "subset":
        sp["cand"] = [c + 20 for c in reversed(spec["cand"])]
        for o in sp["obj"]:
            o["s"] = list(reversed(o["s"]))
    else:
        if spec["kind"] != "binary":
            one = 1 if spec["kind"] == "integer" else 1.5
            sp["lo"] = [a + one for a in spec["lo"]]
            sp["hi"] = [b + one for b in spec["hi"]]
        for o in sp["obj"]:
            o["b"] = [-v + 0.5 for v in o["b"]]
    return sp


def public_mismatch(prob, spec):
    """None if the problem's PUBLIC properties describe `spec`, else the name of the first field that does not"""
    v = R.public_view(prob)
    if spec["kind"] == "subset":
        c = spec["cand"]
        exp = dict(ndecn=spec["k"], decn_space=list(c), lower=[min(c)] * spec["k"], upper=[max(c)] * spec["k"])
    else:
        exp = dict(ndecn=len(spec["lo"]), decn_space=[list(spec["lo"]), list(spec["hi"])], lower=list(spec["lo"]), upper=list(spec["hi"]))
    nobj = len(spec["obj"])
    exp.update(nobj=nobj, obj_wt=list(spec.get("obj_wt", [1.0] * nobj)), nineqcv=len(spec.get("ineq", [])), neqcv=len(spec.get("eq", [])),
               ineqcv_wt=list(spec.get("ineq_wt", [1.0] * len(spec.get("ineq", [])))), eqcv_wt=list(spec.get("eq_wt", [1.0] * len(spec.get("eq", [])))))
    for f, e in exp.items():
        got = v[f]
        if got != e and [float(x) for x in numpy.ravel(got)] != [float(x) for x in numpy.ravel(e)]:
            return f
    return None


# ----------------------------------------------------------------------------
# shards
def shards(tier, seed):
    out = []
    out += [("L1long", n, k, par) for n, k, par in LONG]
    out += _l1_shards(tier, seed)
    out += _l2_shards(tier, seed)
    out += _l3_shards(tier, seed)
    return out


def _l1_groups(tier):
    """(n, k, alphabet size, objective kinds, constraint kinds) per tier."""
    T = tier == "thorough"
    OK = ("sep", "sep-") + PAIRS
    g = []
    for n in range(1, 7 if T else 6):
        for k in range(1, n + 1):
            nalpha, oks, cns = 3, OK, CONS
            if n == 6:                      # thorough only: 20 subsets / 9 neighbours at k=3, 2-value alphabet
                if k > 3:
                    continue
                nalpha = 2
            if n == 4 and not T:
                if k == 3:
                    nalpha = 2
                if k == 4:
                    nalpha, oks, cns = 2, ("sep", "adj"), ("none", "both")
            if n == 5:
                if T:
                    if k == 4:
                        nalpha = 2
                    if k == 5:
                        nalpha, oks, cns = 2, ("sep", "adj"), ("none", "both")
                else:
                    if k >= 4:
                        continue
                    if k == 2:
                        nalpha = 2
                    if k == 3:
                        nalpha, oks, cns = 2, ("sep", "adj", "par"), ("none", "ineq", "both", "quota")
            g.append((n, k, nalpha, oks, cns))
    return g


ORDER_CONS = ("none", "oineq", "both")


def _l1_shards(tier, seed):
    out = []
    target = 4000 if tier == "quick" else 12000
    for n, k, nalpha, oks, cns in _l1_groups(tier):
        vecs = list(itertools.product(range(nalpha), repeat=n))
        probs = [(ok, cn, v) for ok in oks for cn in cns for v in vecs]
        # order-dependent objectives / constraints (k >= 2: a single position has no order)
        if k >= 2 and len(oks) > 2:
            probs += [(ok, cn, v) for ok in ORDER for cn in ORDER_CONS for v in vecs]
        per = max(1, target // (n ** k))
        for i in range(0, len(probs), per):
            out.append(("L1", HILL, n, k, probs[i:i + per]))
        if n <= 3:
            out.append(("L1", HILL_RS, n, k, probs))
        # the two generator-free optimisers: one execution per problem
        sp = [p for p in probs if p[0].startswith("sep") or p[0] in ORDER]
        for i in range(0, len(sp), target // 2):
            out.append(("L1", SORT, n, k, sp[i:i + target // 2]))
        for i in range(0, len(probs), target // 2):
            out.append(("L1", SHILL, n, k, probs[i:i + target // 2]))
        if n <= 3 or (n, k) == (4, 2):
            # setter histories: the same problems reached by constructing a DIFFERENT problem (other candidates, other k,
            # other weights, no constraints) and changing every public attribute through its setter
            for a in (HILL, SORT, SHILL):
                pl, step = (sp, target // 2) if a == SORT else (probs, per if a == HILL else target // 2)
                for i in range(0, len(pl), step):
                    out.append(("L1", a + HIST, n, k, pl[i:i + step]))
                    if n <= 3 or a != HILL:
                        out.append(("L1", a + REUSED, n, k, pl[i:i + step]))
    return out


# ----------------------------------------------------------------------------
# L1
def l1_spec(seed, n, k, okind, con, vec):
    alpha = SCORES[seed % 3]
    scores = [alpha[v] for v in vec]
    wt = -1.0 if okind == "sep-" else 1.0
    return subset_spec(seed, n, k, scores, "sep" if okind.startswith("sep") else okind, wt, con)


def l1_run(ctx, algo, spec, answers=None):
    """All executions of one (algorithm, problem): every answer of the initial draw."""
    hist = None
    tagx = ""
    reused = algo.endswith(REUSED)
    if reused:
        algo = algo[:-len(REUSED)]
        tagx = REUSED
        sib = R.build(sibling_spec(spec))
    if algo.endswith(HIST):
        algo = algo[:-len(HIST)]
        hist = hist_spec(spec)
        tagx = HIST
    prob = R.build_hist(spec, hist)
    before = R.snapshot(prob)
    bad = public_mismatch(prob, spec)
    if bad is not None:
        ctx.violation(f"L1:SubsetProblem:setter-not-reflected:{bad}", f"after the setter history the public property {bad} is "
                      f"{R.public_view(prob)[bad]}", dict(layer="L1", algo=algo + tagx, spec=spec, answers=[]))
    cand = spec["cand"]
    k = spec["k"]
    rs = algo == HILL_RS
    algo = HILL if rs else algo
    if rs:
        tagx = "[RandomState]"
    cls = _algo_cls(algo)
    cache = {}
    ordered = R.order_dependent(spec)
    separable = all(o["pair"] is None for o in spec["obj"]) and not ordered
    brute = R.brute_min_obj(prob, cand, k) if (algo == SORT and separable) else None

    n = len(cand)
    # evaluation budget of any search whose every accepted move strictly improves (cv, score): the value depends on the
    # multiset of selected members only, so at most C(n+k-1,k) solutions are visited, each scan costs <= k*n evaluations;
    # the sorting variants spend n single-member evaluations first
    budget = 1 + n + (_fact(n + k - 1) // (_fact(k) * _fact(n - 1)) + 1) * k * n
    if ordered:      # the value depends on the ordered tuple: at most n^k solutions are visited
        budget = 1 + n + (n ** k + 1) * k * n

    def run(ch):
        h = R.InitialDrawHandler(ch)
        prob.n_evalfn, prob.limit = 0, budget
        if algo == HILL:
            opt = cls(rng=ScriptedRandomState(h) if rs else ScriptedGenerator(h))
        else:
            opt = cls()
        try:
            with R.global_stream_tripwire():
                if reused:      # same optimiser object, first a sibling problem (equal dimensions, other labels / data)
                    if algo == HILL:
                        opt.rng = ScriptedGenerator(R.InitialDrawHandler(Chooser(())))
                    opt.minimize(sib)
                    if algo == HILL:
                        opt.rng = ScriptedGenerator(h)
                soln = opt.minimize(prob)
            err = None
        except Exception as e:  # handed to guard below
            soln, err = None, e
        prob.limit = None
        return soln, err, h

    if answers is not None:
        ch = Chooser(answers)
        it = [(ch, run(ch))]
    else:
        it = explore(run)
    for ch, (soln, err, h) in it:
        ctx.evaluations += 1
        ctx.transitions += 1
        ctx.count(f"L1:exec:{algo}" + tagx)
        case = dict(layer="L1", algo=algo + tagx, spec=spec, answers=list(ch.taken))

        def oracle():
            if err is not None:
                raise err
            _l1_oracle(ctx, algo, prob, before, spec, soln, h, cache, brute, separable)
        ok = ctx.guard(oracle, case=case, sig_prefix=f"L1:{algo}:")
        if ok:
            ctx.traces += 1
        else:
            if R.snap_diff(before, R.snapshot(prob)) is not None:
                prob = R.build_hist(spec, hist)
        _l1_coverage(ctx, algo, spec, soln, h, separable)
        if ordered:
            ctx.flag("L1:order-dependent")
        if hist is not None:
            ctx.flag("L1:setter-history")
        if reused:
            ctx.flag("L1:reused-optimiser")
        if h.seen:
            ctx.flag("L1:init-replace" if h.seen[0][2] else "L1:init-noreplace")
        if ctx.evaluations % 7919 == 1 and soln is not None:
            ctx.sample(dict(layer="L1", algo=algo, cand=cand, k=k, scores=spec["obj"][0]["s"],
                            answers=list(ch.taken), decision=soln.soln_decn, obj=soln.soln_obj))


def _l1_oracle(ctx, algo, prob, before, spec, soln, h, cache, brute, separable):
    P = f"L1:{algo}:"
    cand, k = spec["cand"], spec["k"]
    n = len(cand)
    d = R.snap_diff(before, R.snapshot(prob))
    require(d is None, P + "problem-mutated", lambda: f"minimize() changed the problem object's field {d}")
    require(type(soln).__name__ == "SubsetSolution" and soln.nsoln == 1, P + "solution-shape",
            lambda: f"{type(soln).__name__} nsoln={getattr(soln, 'nsoln', None)}")
    X = soln.soln_decn
    require(isinstance(X, numpy.ndarray) and X.shape == (1, k), P + "size", lambda: f"soln_decn shape {getattr(X, 'shape', None)}, k={k}")
    x = X[0]
    bad = R.subset_defects(x, cand, k)
    require(bad is None, P + str(bad), lambda: f"returned decision {x.tolist()} is not a {k}-subset of {cand} "
            f"(initial draw asked with replace={h.seen[0][2] if h.seen else None})")
    require(X.dtype.kind in "iu", P + "dtype", lambda: f"decision dtype {X.dtype}")
    key = tuple(int(v) for v in x)
    if key not in cache:
        o, g, e = prob.evalfn(numpy.array(key, dtype="int64"))
        cache[key] = [o, g, e, None]
    o, g, e, loc = cache[key]
    for name, got, exp in (("obj", soln.soln_obj, o), ("ineqcv", soln.soln_ineqcv, g), ("eqcv", soln.soln_eqcv, e)):
        require(isinstance(got, numpy.ndarray) and got.shape == (1, len(exp)) and _eq(got[0], exp), P + "stale-" + name,
                lambda: f"reported {name} {None if got is None else got.tolist()} but evalfn({list(key)}) gives {exp.tolist()}")
    if algo == SORT and brute is None:
        pass          # order-dependent objective: the sorting optimiser is only held to validity + truthfulness
    elif algo == SORT:
        require(close(float(o.sum()), brute), P + "not-brute-force-optimum",
                lambda: f"scores {spec['obj'][0]['s']} wt {spec['obj_wt']}: returned {list(key)} with objective {float(o.sum())}, "
                        f"brute force over all C({n},{k}) subsets gives {brute}")
    else:
        if loc is None:
            loc = R.improving_exchange(prob, key, cand)
            cache[key][3] = loc if loc is not None else False
        require(not loc, P + "not-local-optimum",
                lambda: f"returned {list(key)} (cv,score)={loc[2]} but exchanging position {loc[0]} for member {loc[1]} gives {loc[3]}")
    pk = cache.get("pk")
    if pk is None:
        pk = cache["pk"] = _dg(spec)
    ctx.outcome(_dg(algo, sorted(key), o.tolist(), g.tolist(), e.tolist()))
    ctx.state(_dg(algo, pk, key))
    s = spec["obj"][0]["s"]
    if k < n and len(set(s)) > 1:
        ctx.nontriv(_dg(algo, pk, key, "nt"))


def _l1_coverage(ctx, algo, spec, soln, h, separable):
    """vacuity bookkeeping; deliberately independent of the oracle's verdict"""
    s = spec["obj"][0]["s"]
    if len(set(s)) < len(s):
        ctx.flag("L1:ties")
    if len(set(s)) == 1:
        ctx.flag("L1:constant-objective")
    if spec["k"] == len(spec["cand"]):
        ctx.flag("L1:k==n")
    if not separable:
        ctx.flag("L1:non-separable")
    if spec.get("ineq") or spec.get("eq"):
        ctx.flag("L1:constrained")
    try:
        x = [int(v) for v in soln.soln_decn[0]]
        if float(numpy.sum(soln.soln_ineqcv) + numpy.sum(soln.soln_eqcv)) > 0:
            ctx.flag("L1:returned-infeasible")
        if algo == HILL and h.last is not None and sorted(h.last) != sorted(x):
            ctx.flag("L1:climber-moved")
            ctx.count("L1:climber-moved")
    except Exception:
        pass


# ----------------------------------------------------------------------------
# L2 — variation operators as transitions of the validity invariant
SAMP, XO, MUT = "SubsetRandomSampling", "ReducedExchangeCrossover", "ReducedExchangeMutation"
MSD = "MultiObjectiveSteepestDescentHillClimberMutation"
MSH, MA, MB = "StochasticHillClimberMutation", "MutatorA", "MutatorB"
ISBX, IPM = "IntegerSimulatedBinaryCrossover", "IntegerPolynomialMutation"
SUBSET_OPS = (SAMP, XO, MUT, MSD, MSH, MA, MB)
TOP = (TWO53 - 1) / TWO53
LANDS = ("anti", "corr", "mixed", "const", "anti+ineq")
L2_MAX_EXEC = 400000        # safety cap per case (never reached on the tree as found; reaching it sets exhaustive=false)


def l2_problem(seed, n, k, land):
    u = UNIT[seed % 3]
    s1 = [u * i for i in range(n)]
    base = land.split("+")[0]
    s2 = {"anti": [u * (n - 1 - i) for i in range(n)], "corr": list(s1),
          "mixed": [u * (i % 2) for i in range(n)], "const": [0.0] * n}[base]
    if base == "const":
        s1 = [0.0] * n
    return subset_spec(seed, n, k, s1, scores2=s2, con="ineq" if land.endswith("+ineq") else "none")


def _addon():
    from pybrops.opt.algo import pymoo_addon
    return pymoo_addon


def l2_make_op(op, prob, par):
    A = _addon()
    ss = prob.decn_space
    if op == SAMP:
        return A.SubsetRandomSampling(setspace=ss)
    if op == XO:
        return A.ReducedExchangeCrossover()
    if op == MUT:
        return A.ReducedExchangeMutation(setspace=ss)
    if op == MSD:
        return A.MultiObjectiveSteepestDescentHillClimberMutation(setspace=ss, p_hillclimb=par["phc"])
    if op in (MSH, MA, MB):
        return getattr(A, op)(setspace=ss, phc=par["phc"], nhcstep=par["nhcstep"])
    if op == ISBX:
        return A.IntegerSimulatedBinaryCrossover()
    if op == IPM:
        return A.IntegerPolynomialMutation()
    raise KeyError(op)


def l2_run(ctx, op, spec, parents, par, answers=None):
    """All answer vectors for one (operator, problem, parent configuration).
    parents: SAMP -> n_samples; XO/ISBX -> [[p0 rows...],[p1 rows...]] (2, n_matings, k); others -> (n_indiv, k)."""
    from pymoo.core.population import Population
    prob = R.build(spec)
    before = R.snapshot(prob)
    subset = spec["kind"] == "subset"
    k = spec["k"] if subset else len(spec["lo"])
    degenerate = subset and k == len(spec["cand"])
    P = f"L2:{op}:"
    PX = P + ("full-set:" if degenerate else "")       # exceptions in the degenerate k==n case are their own root cause
    X0 = None if op == SAMP else numpy.array(parents, dtype="int64")
    umenu = par.get("umenu", (0.25, 0.75, 0.0, TOP))

    def run(ch):
        oper = l2_make_op(op, prob, par)
        sink = io.StringIO()
        try:
            with contextlib.redirect_stdout(sink):
                if op in (ISBX, IPM):
                    h = R.UniformMenuHandler(ch, umenu)
                    with R.global_stream_tripwire():
                        out = oper._do(prob, X0.copy(), random_state=ScriptedGenerator(h))
                    ncalls = h.ncells
                else:
                    sg = R.ScriptedGlobal(ch, umenu)
                    with sg.installed():
                        if op == SAMP:
                            out = oper._do(prob, parents)
                        elif op == MSD:
                            res = oper.do(prob, Population.new("X", X0.copy()))
                            out = [ind.X for ind in res]
                        else:
                            out = oper._do(prob, X0.copy())
                    ncalls = len(sg.calls)
            return out, None, ncalls
        except Exception as e:
            return None, e, 0

    if answers is not None:
        ch = Chooser(answers)
        it = [(ch, run(ch))]
    else:
        it = explore(run, max_exec=par.get("max_exec", L2_MAX_EXEC))
    for ch, (out, err, ncalls) in it:
        ctx.evaluations += 1
        ctx.transitions += 1
        ctx.count(f"L2:trans:{op}")
        case = dict(layer="L2", op=op, spec=spec, parents=parents, par=dict(par, umenu=list(umenu)), answers=list(ch.taken))

        def oracle():
            if err is not None:
                raise err
            d = R.snap_diff(before, R.snapshot(prob))
            require(d is None, P + "problem-mutated", lambda: f"operator changed the problem object's field {d}")
            if subset:
                rows = _l2_rows(op, out, parents, k, P)
                for r in rows:
                    bad = R.subset_defects(r, spec["cand"], k)
                    require(bad is None, P + str(bad), lambda: f"offspring {numpy.asarray(r).tolist()} from parents {parents} is not a "
                            f"{k}-subset of {spec['cand']}")
                    require(numpy.asarray(r).dtype.kind in "iu", P + "dtype", lambda: f"offspring dtype {numpy.asarray(r).dtype}")
            else:
                require(isinstance(out, numpy.ndarray) and out.shape == X0.shape, P + "shape", lambda: f"output shape {getattr(out, 'shape', None)} for input {X0.shape}")
                require(out.dtype.kind in "iu", P + "dtype", lambda: f"offspring dtype {out.dtype}, parents are {X0.dtype}")
                lo, hi = numpy.array(spec["lo"]), numpy.array(spec["hi"])
                require(bool(numpy.all(out >= lo) and numpy.all(out <= hi)), P + "out-of-bounds",
                        lambda: f"offspring {out.tolist()} outside [{spec['lo']},{spec['hi']}] from parents {parents}")
        ok = ctx.guard(oracle, case=case, sig_prefix=PX)
        if ok:
            ctx.traces += 1
        elif R.snap_diff(before, R.snapshot(prob)) is not None:
            prob = R.build(spec)
        try:        # coverage bookkeeping, independent of the verdict
            flat = [numpy.asarray(r).tolist() for r in (out if not isinstance(out, numpy.ndarray) else out.reshape(-1, k))]
            ctx.outcome(_dg(op, flat))
            ctx.state(_dg(op, spec["cand"] if subset else spec["lo"], k, parents))
            if op == SAMP or flat != numpy.asarray(parents).reshape(-1, k).tolist():
                ctx.nontriv(_dg(op, spec, parents, par.get("phc"), par.get("nhcstep"), list(ch.taken)))
                ctx.count(f"L2:changed:{op}")
            else:
                ctx.count(f"L2:identity:{op}")
        except Exception:
            pass
        if ncalls:
            ctx.flag(f"L2:drew:{op}")
        if degenerate:
            ctx.flag(f"L2:k==n:{op}")
        if not subset and min(spec["hi"]) < 0:
            ctx.flag("L2:negative-upper-bound")
        if ctx.evaluations % 7919 == 1 and out is not None:
            ctx.sample(dict(layer="L2", op=op, parents=parents, answers=list(ch.taken),
                            offspring=[numpy.asarray(r).tolist() for r in out]))
    if answers is None and explore.capped:
        ctx.capped.append(f"L2 {op} max_exec")


def _l2_rows(op, out, parents, k, P):
    if op == MSD:
        require(len(out) >= len(parents), P + "shape", lambda: f"{len(out)} individuals returned for {len(parents)} parents")
        return out
    require(isinstance(out, numpy.ndarray), P + "shape", lambda: f"output type {type(out).__name__}")
    if op == SAMP:
        exp = (parents, k)
    else:
        exp = numpy.asarray(parents).shape
    require(out.shape == tuple(exp), P + "shape", lambda: f"output shape {out.shape}, expected {tuple(exp)}")
    return list(out.reshape(-1, k))


def _fact(n):
    out = 1
    for i in range(2, n + 1):
        out *= i
    return out


def _tiled(a, size):
    """number of answers of tiled_choice(a, size): (a!)^(size//a) * a!/(a - size%a)!"""
    if a <= 0:
        return 1
    return _fact(a) ** (size // a) * (_fact(a) // _fact(a - size % a))


def l2_estimate(op, n, k, par, nind=1):
    """rough number of answer vectors of one case (used to balance shards and to bound the scope)."""
    if op in (MSH, MA, MB):
        if k == n:
            return 5
        nh = par["nhcstep"] or k
        if op == MSH:
            hill = _tiled(k, nh) * (n - k) ** nh * 2
        else:
            hill = _tiled(k, nh) * _tiled(n - k, nh) * (nh if op == MA else 2)
        return 2 * hill + 3
    if op == MSD:
        nu = len(par["umenu"]) ** nind
        return nu * (1 + k) if nind == 1 else nu * (1 + 2 * k + 2 * k * k)
    return 1


def _l2_shards(tier, seed):
    T = tier == "thorough"
    groups = []      # (cost, (op, n, k, land, plist, par))
    nmax = 6 if T else 5
    lab = LABELS[seed % 3]
    cap_case = 6000 if T else 700          # memetic cases with more answers than this are outside the scope

    def add(op, n, k, land, plist, par, each):
        groups.append((each * len(plist), (op, n, k, land, plist, par)))

    for n in range(1, nmax + 1):
        for k in sorted(set(list(range(1, min(n, 3) + 1)) + [n])):
            if k > 4 or (n == 6 and k > 3):
                continue
            cand = lab[:n]
            perms = R.ordered_subsets(cand, k)
            combs = [c for c in itertools.combinations(cand, k)]
            m = len(perms)
            # sampling: one and (where m^2 is small) two rows
            add(SAMP, n, k, "anti", [1], {}, m)
            if m * m <= (15000 if T else 4000):
                add(SAMP, n, k, "anti", [2], {}, m * m)
            # crossover: all ordered pairs of ordered parents, one mating; a diagonal with two matings
            firsts = perms
            if not T and m * m > 4000:   # quick: first parent in sorted and reversed order only
                firsts = [c for c in combs] + [tuple(reversed(c)) for c in combs if k > 1]
            for a in firsts:
                add(XO, n, k, "anti", [[[list(a)], [list(b)]] for b in perms], {}, 3)
            cov = perms[:: max(1, m // 6)][:6]
            add(XO, n, k, "anti", [[[list(a), list(c)], [list(b), list(d)]] for a in cov for b in cov for c in cov[:3] for d in cov[-3:]], {}, 6)
            # plain mutation
            # (the identity on valid individuals in the tree as found; sized so that a repaired, drawing mutation stays
            #  enumerable: single individuals with the full menu, two-row populations with a 2-value menu for n <= 4)
            add(MUT, n, k, "anti", [[list(a)] for a in perms], {}, 1)
            if n <= 4:
                add(MUT, n, k, "anti", [[list(a), list(b)] for a in cov for b in cov], dict(umenu=(0.25, 0.75)), 1)
            # memetic mutations (need >= 2 objectives)
            if n > 5:
                continue
            inds = perms if (T or m <= 24) else ([c for c in combs] + [tuple(reversed(c)) for c in combs])
            lands = LANDS if T else ("mixed", "anti+ineq")
            if k == n and n > 3:
                lands, inds = lands[:1], inds[:2]      # degenerate full-set case: one landscape is enough
            for land in lands:
                for opn in (MSH, MA, MB):
                    for nh in (None, 1, k + 1):
                        par = dict(phc=0.5, nhcstep=nh, umenu=(0.25, 0.75, 0.0, 0.5, TOP))
                        est = l2_estimate(opn, n, k, par)
                        if est > cap_case:
                            continue
                        for i in range(0, len(inds), 10):
                            add(opn, n, k, land, [[list(a)] for a in inds[i:i + 10]], par, est)
                par = dict(phc=0.5, umenu=(0.25, TOP))
                for i in range(0, len(inds), 20):
                    add(MSD, n, k, land, [[list(a)] for a in inds[i:i + 20]], par, l2_estimate(MSD, n, k, par, 1))
                add(MSD, n, k, land, [[list(a), list(b)] for a in cov for b in cov], par, l2_estimate(MSD, n, k, par, 2))
    # integer operators
    full = (0.25, 0.75, 0.0, 1.0 / TWO53, 0.5, 0.5 + 2.0 ** -53, TOP)
    small = (0.4, 0.75, 0.0, TOP)
    # boxes with negative upper bounds, zero-straddling ranges and a variable fixed at a negative value (rounding / casting
    # of negative reals is where integer conversion goes wrong); thorough adds the non-negative ones
    boxes = [([-3], [-1], full), ([-3, -1], [-2, 1], small), ([-2, 0], [-2, 1], full)]
    if T:
        boxes += [([-1], [2], full), ([0, -1], [3, 0], small), ([2, 0], [2, 1], full)]
    for lo, hi, menu in boxes:
        vecs = [list(v) for v in itertools.product(*[range(a, b + 1) for a, b in zip(lo, hi)])]
        free = sum(1 for a, b in zip(lo, hi) if a != b)
        for a in (vecs if (T or len(lo) == 1) else vecs[::2]):
            add(ISBX, lo, hi, None, [[[a], [b]] for b in vecs], dict(umenu=menu), len(menu) ** (1 + 2 * free))
        pm = full if len(lo) == 1 else small
        add(IPM, lo, hi, None, [[a] for a in vecs], dict(umenu=pm), len(pm) ** (len(lo) + free))
        if len(lo) == 1 or T:
            add(IPM, lo, hi, None, [[a, b] for a in vecs[:2] for b in vecs[-2:]], dict(umenu=pm), len(pm) ** (2 * len(lo) + 2 * free) // 4)
    # balance: consecutive groups are merged until the estimated cost reaches the target
    target = 8000 if T else 2500
    out, cur, cost = [], [], 0
    for c, g in groups:
        cur.append(g)
        cost += c
        if cost >= target:
            out.append(("L2", cur))
            cur, cost = [], 0
    if cur:
        out.append(("L2", cur))
    return out


def int_spec(lo, hi):
    d = len(lo)
    return dict(kind="integer", lo=list(lo), hi=list(hi),
                obj=[dict(a=[1.0] * d, t=[0.0] * d, b=[0.0] * d), dict(a=[0.0] * d, t=[0.0] * d, b=[-1.0] * d)])


# ----------------------------------------------------------------------------
# L3 — the 13 GA classes end to end (finite list of pinned generator states)
GA_CLASSES = {
    # name: (module, decision kind, multi-objective?, extra constructor arguments)
    "SubsetGeneticAlgorithm": ("SubsetGeneticAlgorithm", "subset", False, {}),
    "RealGeneticAlgorithm": ("RealGeneticAlgorithm", "real", False, {}),
    "IntegerGeneticAlgorithm": ("IntegerGeneticAlgorithm", "integer", False, {}),
    "BinaryGeneticAlgorithm": ("BinaryGeneticAlgorithm", "binary", False, {}),
    "NSGA2SubsetGeneticAlgorithm": ("NSGA2SubsetGeneticAlgorithm", "subset", True, {}),
    "NSGA2RealGeneticAlgorithm": ("NSGA2RealGeneticAlgorithm", "real", True, {}),
    "NSGA2IntegerGeneticAlgorithm": ("NSGA2IntegerGeneticAlgorithm", "integer", True, {}),
    "NSGA2BinaryGeneticAlgorithm": ("NSGA2BinaryGeneticAlgorithm", "binary", True, {}),
    "NSGA3SubsetGeneticAlgorithm": ("NSGA3SubsetGeneticAlgorithm", "subset", True, {}),
    "NSGA2SteepestDescentSubsetGeneticAlgorithm": ("NSGA2MemeticSubsetGeneticAlgorithm", "subset", True, {"phc": 0.5}),
    "NSGA2StochasticDescentSubsetGeneticAlgorithm": ("NSGA2MemeticSubsetGeneticAlgorithm", "subset", True, {"phc": 0.5}),
    "NSGA2MutatorASubsetGeneticAlgorithm": ("NSGA2MemeticSubsetGeneticAlgorithm", "subset", True, {"phc": 0.5}),
    "NSGA2MutatorBSubsetGeneticAlgorithm": ("NSGA2MemeticSubsetGeneticAlgorithm", "subset", True, {"phc": 0.5}),
}
SOLN = {"subset": "SubsetSolution", "real": "RealSolution", "integer": "IntegerSolution", "binary": "BinarySolution"}


def _vec_spec(kind, lo, hi, multi, con, seed):
    d = len(lo)
    u = UNIT[seed % 3]
    mid = [(a + b) / 2.0 for a, b in zip(lo, hi)]
    obj = [dict(a=[u] * d, t=[mid[i] if i % 2 == 0 else float(lo[i]) for i in range(d)], b=[0.0] * d)]
    if multi:
        obj.append(dict(a=[0.0] * d, t=[0.0] * d, b=[(-u if i % 2 == 0 else u) for i in range(d)]))
    sp = dict(kind=kind, lo=list(lo), hi=list(hi), obj=obj)
    tot_hi = float(sum(hi))
    tot_lo = float(sum(lo))
    if con == "ineq":            # roughly the lower half of the box is feasible
        sp["ineq"] = [dict(w=[1.0] * d, cap=(tot_lo + tot_hi) / 2.0)]
        sp["ineq_wt"] = [2.0]
    elif con == "eq":            # integer / binary only: a coordinate sum that some grid points hit
        sp["eq"] = [dict(w=[1.0] * d, target=float(int((tot_lo + tot_hi) // 2)))]
    elif con == "infeasible":
        sp["ineq"] = [dict(w=[1.0] * d, cap=tot_lo - 1.0)]
    elif con == "slack":         # signed slack, always feasible, distinct per decision; signed equality residual < 1e-4
        sp["ineq"] = [dict(w=[1.0 + i for i in range(d)], cap=100.0, signed=True)]
        sp["eq"] = [dict(w=[2.0 - i for i in range(d)], target=0.5, scale=2.0 ** -17)]
    return sp


REUSE = "reuse:"           # tag prefix: one optimiser object minimises sibling(B), B, sibling(B) in turn
SETTERS = "setters:"      # tag prefix: the problem object is reached through a setter history (see hist_spec)


def l3_problems(seed, kind, multi, tier):
    """The explicit finite problem family per decision encoding: (tag, spec)."""
    T = tier == "thorough"
    out = []
    al = SCORES[seed % 3]

    def sub(n, k, con, var):
        """var: a landscape (multi) / objective kind (single) name, or 'order' for order-dependent objectives"""
        pat = [al[2], al[0], al[1], al[0], al[2], al[1]][:n]
        if multi:
            if var.startswith("order"):
                u = UNIT[seed % 3]
                a, b = ("pos", "opair") if var == "order" else ("opair", "pos")
                sp = subset_spec(seed, n, k, [u * i for i in range(n)], a, 1.0, con, scores2=[u * (n - 1 - i) for i in range(n)], okind2=b)
            else:
                sp = l2_problem(seed, n, k, var)
                sp.update(constraints(con, n))
        else:
            ok = {"order": "pos", "order2": "opair"}.get(var, var)
            sp = subset_spec(seed, n, k, pat, "sep" if ok.startswith("sep") else ok, -1.0 if ok == "sep-" else 1.0, con)
        return (f"subset n{n} k{k} {var} {con}", sp)

    if kind == "subset":
        v = ("anti", "mixed", "corr", "const") if multi else ("sep", "adj", "sep-", "par")
        if T:
            for n, k in ((4, 2), (5, 3)):
                out += [sub(n, k, con, var) for con in CONS for var in v[:2]]
                out += [sub(n, k, con, var) for con in ORDER_CONS for var in ("order", "order2")]
            out += [sub(5, 2, con, var) for con in ("none", "both") for var in v[2:]]
            out += [sub(3, 3, "none", v[0]), sub(3, 3, "ineq", v[0]), sub(2, 1, "none", v[0])]
            hist = [sub(4, 2, "ineq", v[0]), sub(5, 3, "oineq", "order"), sub(3, 3, "none", v[1])]
        else:
            out += [sub(4, 2, "none", v[0]), sub(4, 2, "none", v[1]), sub(4, 2, "ineq", v[0]), sub(4, 2, "infeasible", v[1]),
                    sub(5, 3, "none", v[0]), sub(5, 3, "ineq", v[0]), sub(3, 3, "none", v[0]),
                    sub(4, 2, "none", "order"), sub(5, 3, "oineq", "order2")]
            hist = [sub(4, 2, "ineq", v[0])]
    else:
        if kind == "real":
            neg = ([-7.0, 0.0, -9.0], [-3.0, 4.0, -2.0])
            plan = [(([-1.0, 0.0], [2.0, 0.5]), ("none", "ineq", "infeasible")), (([0.25], [0.75]), ("none",)), (neg, ("none",))]
            if T:
                plan += [(([-1.0, 0.0, 1.0], [1.0, 0.0, 3.0]), ("none", "ineq", "infeasible")), (neg, ("ineq",))]
            hist = [(([-1.0, 0.0], [2.0, 0.5]), "ineq")] + ([(neg, "none")] if T else [])
        elif kind == "integer":
            neg = ([-7, 0, -9], [-3, 4, -2])
            plan = [(([-1, 0], [2, 1]), ("none", "ineq", "eq", "infeasible")), (([-2, 0], [-2, 1]), ("none",)), (neg, ("none", "ineq"))]
            if T:
                plan += [(([0], [3]), ("none", "ineq", "eq", "infeasible")), (([-2, -1, 0], [0, 1, 0]), ("none", "ineq", "eq", "infeasible")),
                         (([2, 0], [2, 1]), ("none",)), (neg, ("eq",))]
            hist = [(neg, "none")] + ([(([-1, 0], [2, 1]), "ineq")] if T else [])
        else:
            plan = [(([0, 0], [1, 1]), ("none", "ineq", "eq", "infeasible")), (([0, 0, 0], [1, 1, 1]), ("none", "eq"))]
            if T:
                plan += [(([0], [1]), ("none", "ineq", "eq", "infeasible")), (([0, 0, 0], [1, 1, 1]), ("ineq", "infeasible"))]
            hist = [(([0, 0, 0], [1, 1, 1]), "ineq")]
        for (lo, hi), cons in plan:
            for con in cons:
                out.append((f"{kind} lo{lo} hi{hi} {con}", _vec_spec(kind, lo, hi, multi, con, seed)))
        hist = [(f"{kind} lo{lo} hi{hi} {con}", _vec_spec(kind, lo, hi, multi, con, seed)) for (lo, hi), con in hist]
    out += [(SETTERS + tag, sp) for tag, sp in hist]
    # signed slack / signed equality residual: every returned row carries its own constraint values
    if kind == "subset":
        out.append(sub(4, 2, "slack", v[0]))
        if T:
            out.append(sub(5, 3, "slack", "order"))
        reuse = [sub(4, 2, "none", v[0])] + ([sub(5, 3, "ineq", v[1])] if T else [])
    else:
        box = {"real": ([-1.0, 0.0], [2.0, 0.5]), "integer": ([-1, 0], [2, 1]), "binary": ([0, 0, 0], [1, 1, 1])}[kind]
        out.append((f"{kind} lo{box[0]} hi{box[1]} slack", _vec_spec(kind, box[0], box[1], multi, "slack", seed)))
        reuse = [(f"{kind} lo{box[0]} hi{box[1]} none", _vec_spec(kind, box[0], box[1], multi, "none", seed))]
    # ONE optimiser object used for sibling(B), B, sibling(B): problems of equal dimensions, different labels / bounds / data
    out += [(REUSE + tag, sp) for tag, sp in reuse]
    return out


def l3_hyper(tier):
    return [(ps, ng) for ps in (4, 8) for ng in (1, 2, 3)]


def l3_seeds(tier):
    return list(range(16 if tier == "thorough" else 4))


@contextlib.contextmanager
def pinned_generators(pin):
    """pymoo draws its Generator with numpy.random.default_rng(None); the add-on operators use the legacy
    global stream.  Both are pinned to `pin` for the duration of one run and restored afterwards."""
    orig = numpy.random.default_rng
    state = numpy.random.get_state()

    def rng(seed=None):
        return orig(pin if seed is None else seed)
    numpy.random.default_rng = rng
    numpy.random.seed(pin)
    try:
        yield
    finally:
        numpy.random.default_rng = orig
        numpy.random.set_state(state)


def l3_seq_run(ctx, cname, tag, spec, ps, ng, pin):
    """one optimiser object, three problems of equal dimensions in a row; every result is judged against ITS problem"""
    import importlib
    modn, kind, multi, extra = GA_CLASSES[cname]
    cls = getattr(importlib.import_module(f"pybrops.opt.algo.{modn}"), cname)
    opt = cls(ngen=ng, pop_size=ps, **extra)
    sib = sibling_spec(spec)
    for step, sp in enumerate((sib, spec, sib)):
        l3_run(ctx, cname, tag, sp, ps, ng, pin + step, opt=opt, seq=(spec, step))
    ctx.flag(f"L3:reused-optimiser:{cname}")


def l3_run(ctx, cname, tag, spec, ps, ng, pin, opt=None, seq=None):
    import importlib
    modn, kind, multi, extra = GA_CLASSES[cname]
    mod = importlib.import_module(f"pybrops.opt.algo.{modn}")
    cls = getattr(mod, cname)
    hist = hist_spec(spec) if tag.startswith(SETTERS) else None
    prob = R.build_hist(spec, hist)
    before = R.snapshot(prob)
    bad = public_mismatch(prob, spec)
    if bad is not None:
        ctx.violation(f"L3:{SOLN[kind][:-8]}Problem:setter-not-reflected:{bad}", f"after the setter history the public property {bad} "
                      f"is {R.public_view(prob)[bad]}", dict(layer="L3", cls=cname, tag=tag, spec=spec, pop_size=ps, ngen=ng, pin=pin))
    if hist is not None:
        ctx.flag(f"L3:setter-history:{kind}")
    if R.order_dependent(spec):
        ctx.flag(f"L3:order-dependent:{cname}")
    if kind in ("real", "integer") and min(spec["hi"]) < 0:
        ctx.flag(f"L3:negative-upper-bound:{kind}")
    degenerate = kind == "subset" and spec["k"] == len(spec["cand"])
    seen = {}
    real_min = getattr(mod, "minimize", None)      # pymoo.optimize.minimize as imported by the wrapper module

    def spy(*a, **k):
        res = real_min(*a, **k)
        seen["none"] = res.X is None
        return res
    case = dict(layer="L3", cls=cname, tag=tag, spec=spec, pop_size=ps, ngen=ng, pin=pin)
    if seq is not None:      # replay re-runs the whole sequence on a fresh optimiser object
        case = dict(layer="L3", cls=cname, tag=tag, spec=seq[0], pop_size=ps, ngen=ng, pin=pin - seq[1], step=seq[1])
    ctx.evaluations += 1
    ctx.transitions += 1
    ctx.count(f"L3:runs:{cname}")
    soln = err = None
    sink = io.StringIO()
    if real_min is not None:
        mod.minimize = spy              # observation only: was pymoo's result empty (no feasible individual)?
    try:
        with pinned_generators(pin), contextlib.redirect_stdout(sink):
            soln = (opt if opt is not None else cls(ngen=ng, pop_size=ps, **extra)).minimize(prob)
    except Exception as e:
        err = e
    finally:
        if real_min is not None:
            mod.minimize = real_min
    P = f"L3:{cname}:"
    # exceptions get their own signature when pymoo reported no feasible individual / in the degenerate k==n case
    PX = P + ("no-feasible-result:" if seen.get("none") else "") + ("full-set:" if degenerate else "")

    def oracle():
        if err is not None:
            raise err
        _l3_oracle(ctx, P, cname, kind, multi, prob, before, spec, soln)
    if ctx.guard(oracle, case=case, sig_prefix=PX):
        ctx.traces += 1
    if seen.get("none"):
        ctx.flag("L3:no-feasible-result")
    if soln is not None:
        ctx.state(_dg(cname, tag, ps, ng, pin))
        ctx.outcome(_dg(cname, soln.soln_decn.tolist(), soln.soln_obj.tolist()))
        if soln.nsoln > 1:
            ctx.nontriv(_dg(cname, tag, ps, ng, pin))
            ctx.flag(f"L3:front>1:{cname}")
        if spec.get("ineq") or spec.get("eq"):
            ctx.flag(f"L3:constrained-returned:{kind}")
        try:
            if soln.nsoln > 1 and len({tuple(r) for r in numpy.asarray(soln.soln_ineqcv).tolist()}) > 1 \
                    and float(numpy.min(soln.soln_ineqcv)) < 0 and len({tuple(r) for r in numpy.asarray(soln.soln_eqcv).tolist()}) > 1:
                ctx.flag(f"L3:distinct-signed-constraint-rows:{cname}")
        except Exception:
            pass
        if ctx.evaluations % 97 == 1:
            ctx.sample(dict(layer="L3", cls=cname, problem=tag, pop_size=ps, ngen=ng, pin=pin,
                            decisions=soln.soln_decn, obj=soln.soln_obj, ineqcv=soln.soln_ineqcv))


def _l3_oracle(ctx, P, cname, kind, multi, prob, before, spec, soln):
    d = R.snap_diff(before, R.snapshot(prob))
    require(d is None, P + "problem-mutated", lambda: f"minimize() changed the problem object's field {d}")
    require(type(soln).__name__ == SOLN[kind], P + "solution-type", lambda: type(soln).__name__)
    X = soln.soln_decn
    nd = prob.ndecn
    require(isinstance(X, numpy.ndarray) and X.ndim == 2 and X.shape == (soln.nsoln, nd) and soln.nsoln >= 1, P + "size",
            lambda: f"soln_decn shape {getattr(X, 'shape', None)}, nsoln {soln.nsoln}, ndecn {nd}")
    require(multi or soln.nsoln == 1, P + "size", lambda: f"single-objective result with {soln.nsoln} solutions")
    F, CV = [], []
    for i in range(soln.nsoln):
        x = X[i]
        if kind == "subset":
            bad = R.subset_defects(x, spec["cand"], nd)
            require(bad is None, P + str(bad), lambda: f"returned decision {x.tolist()} is not a {nd}-subset of {spec['cand']}")
            require(X.dtype.kind in "iu", P + "dtype", lambda: f"decision dtype {X.dtype}")
        else:
            lo, hi = numpy.array(spec["lo"], dtype=float), numpy.array(spec["hi"], dtype=float)
            ok_t = {"real": "f", "integer": "iu", "binary": "biu"}[kind]
            require(X.dtype.kind in ok_t, P + "dtype", lambda: f"{kind} decision has dtype {X.dtype}")
            xf = x.astype(float)
            require(bool(numpy.all(xf >= lo - 1e-12) and numpy.all(xf <= hi + 1e-12)), P + "out-of-bounds",
                    lambda: f"decision {x.tolist()} outside [{spec['lo']},{spec['hi']}]")
            if kind == "binary":
                require(set(xf.tolist()) <= {0.0, 1.0}, P + "not-binary", lambda: f"decision {x.tolist()}")
        o, g, e = prob.evalfn(x)
        for name, got, exp in (("obj", soln.soln_obj, o), ("ineqcv", soln.soln_ineqcv, g), ("eqcv", soln.soln_eqcv, e)):
            require(isinstance(got, numpy.ndarray) and got.shape == (soln.nsoln, len(exp)) and _eq(got[i], exp), P + "stale-" + name,
                    lambda: f"solution {i}: reported {name} {None if got is None else numpy.asarray(got).tolist()} but "
                            f"evalfn({x.tolist()}) gives {exp.tolist()}")
        F.append(o.tolist())
        CV.append(R.total_cv(g, e))
        if CV[-1] > 0:
            ctx.flag("L3:returned-infeasible")
    if multi:
        dom = R.dominated_pair(F, CV)
        require(dom is None, P + "dominated-member",
                lambda: f"solution {dom[1]} {X[dom[1]].tolist()} F={F[dom[1]]} cv={CV[dom[1]]} is dominated by solution {dom[0]} "
                        f"{X[dom[0]].tolist()} F={F[dom[0]]} cv={CV[dom[0]]}")


def _l3_shards(tier, seed):
    out = []
    seeds = l3_seeds(tier)
    hyp = l3_hyper(tier)
    for cname, (modn, kind, multi, extra) in GA_CLASSES.items():
        heavy = "Memetic" in modn
        probs = l3_problems(seed, kind, multi, tier)
        per = (2 if heavy else 4) if tier == "quick" else 1
        for i in range(0, len(probs), per):
            out.append(("L3", cname, probs[i:i + per], hyp, seeds))
    return out


# ----------------------------------------------------------------------------
def run_shard(spec, ctx):
    T = ctx.tier == "thorough"
    ctx.bounds.update({
        "L1": "n<=5 candidates, all k<=n, score vectors = alphabet^n (3 values; 2 values for n=4,k>=3 / n=5,k>=2 quick, "
              "n=5,k>=4 thorough; n=5,k>=4 thorough only; thorough adds n=6,k<=3 over 2 values), objective in {separable, separable weight -1, 3 pair-interaction "
              "tables}, constraints in {none, ineq, eq, both, all-infeasible}; every answer of the initial rng.choice call",
        "L1_order_and_history": "plus, for every (n, k>=2): order-dependent objectives {position weights, non-symmetric table over "
              "consecutive positions} x {none, position-weighted ineq, both}; setter histories (problem reached through the "
              "public setters from a different problem) for all problems with n<=3 and (n,k)=(4,2)",
        "L1_long_descent": "3 hand-searched pair-interaction problems with n=8..9, k=2..3 whose steepest descent needs >= k+2 "
                           "exchanges; every initial draw",
        "L1_exhaustive": True,
        "L2": f"set space n<={6 if T else 5} (memetic operators n<=5), k<=min(n,3) plus k==n (<=4); parents = all ordered "
              "k-subsets (quick, n=5,k=3: sorted/reversed order for the first parent); every answer of numpy.random.choice/"
              "randint/binomial, random() from a menu of reachable values incl. 0, the thresholds and 1-2^-53; memetic cases "
              f"with more than {6000 if T else 700} answer vectors (large nhcstep) are not generated; integer operators: "
              "boxes [-3,-1], [-3,-2]x[-1,1], {-2}x[0,1] (thorough also [-1,2], [0,3]x[-1,0], {2}x[0,1]), all parent vectors, random() cells from a 4- or 7-value menu",
        "L2_exhaustive": True,
        "L3": f"13 GA classes x explicit tiny problem family x pop_size in (4,8) x ngen in (1,2,3) x pinned generator seeds "
              f"0..{len(l3_seeds(ctx.tier)) - 1}",
        "L3_exhaustive": "problems and hyper-parameters only; generator states are a finite list, NOT exhaustive",
    })
    layer = spec[0]
    if layer == "L1":
        _, algo, n, k, probs = spec
        for ok, cn, vec in probs:
            l1_run(ctx, algo, l1_spec(ctx.seed, n, k, ok, cn, vec))
    elif layer == "L1long":
        _, n, k, par = spec
        sp = long_spec(ctx.seed, n, k, par)
        ref = R.build(sp)
        longest = max(R.ref_descent_steps(ref, st, sp["cand"]) for st in itertools.permutations(sp["cand"], k))
        if longest >= k + 2:
            ctx.flag(f"L1:long-descent:k{k}")
        ctx.count("L1:long-descent:max-exchanges", longest)
        for a in (HILL, SHILL, HILL + REUSED):
            l1_run(ctx, a, sp)
    elif layer == "L2":
        for op, n, k, land, plist, par in spec[1]:
            sp = int_spec(n, k) if op in (ISBX, IPM) else l2_problem(ctx.seed, n, k, land)
            for parents in plist:
                l2_run(ctx, op, sp, parents, par)
    elif layer == "L3":
        _, cname, probs, hyp, seeds = spec
        for tag, sp in probs:
            for ps, ng in hyp:
                if tag.startswith(REUSE) and (ps, ng) not in ((4, 2), (8, 1)):
                    continue             # the reuse sequences use two hyper-parameter settings (3 runs each)
                for pin in seeds:
                    (l3_seq_run if tag.startswith(REUSE) else l3_run)(ctx, cname, tag, sp, ps, ng, pin)


def finalize(ctx, tier, seed):
    c = ctx.counters
    # ---- L1
    for a in (SORT, HILL, SHILL, HILL_RS):
        assert c.get(f"L1:exec:{a}", 0) > 0, a
    for f in ("L1:ties", "L1:constant-objective", "L1:k==n", "L1:non-separable", "L1:constrained", "L1:returned-infeasible",
              "L1:climber-moved"):
        assert f in ctx.flags, f
    assert "L1:init-replace" in ctx.flags or "L1:init-noreplace" in ctx.flags
    # ---- L2: every operator applied, drew from its environment, and (except the plain mutation, which is the
    #      identity on valid individuals in the tree as found) changed something; degenerate k==n cases present
    for op in SUBSET_OPS + (ISBX, IPM):
        assert c.get(f"L2:trans:{op}", 0) > 0, op
        assert f"L2:drew:{op}" in ctx.flags, op
        if op != MUT:
            assert c.get(f"L2:changed:{op}", 0) > 0, op
    for op in SUBSET_OPS:
        assert f"L2:k==n:{op}" in ctx.flags, op
    # ---- L3
    for cname, (modn, kind, multi, extra) in GA_CLASSES.items():
        assert c.get(f"L3:runs:{cname}", 0) > 0, cname
        if multi:
            assert f"L3:front>1:{cname}" in ctx.flags, cname       # non-domination is not vacuous
    for kind in ("subset", "real", "integer", "binary"):
        assert f"L3:constrained-returned:{kind}" in ctx.flags, kind
        assert f"L3:setter-history:{kind}" in ctx.flags, kind
    for cname, (modn, kind, multi, extra) in GA_CLASSES.items():
        if kind == "subset":
            assert f"L3:order-dependent:{cname}" in ctx.flags, cname
    for kind in ("real", "integer"):
        assert f"L3:negative-upper-bound:{kind}" in ctx.flags, kind
    for cname, (modn, kind, multi, extra) in GA_CLASSES.items():
        assert f"L3:reused-optimiser:{cname}" in ctx.flags, cname
        if multi:
            assert f"L3:distinct-signed-constraint-rows:{cname}" in ctx.flags, cname
    for f in ("L1:order-dependent", "L1:setter-history", "L1:reused-optimiser", "L2:negative-upper-bound",
              "L1:long-descent:k2", "L1:long-descent:k3"):
        assert f in ctx.flags, f
    for a in (HILL, SORT, SHILL):
        assert c.get(f"L1:exec:{a}{HIST}", 0) > 0, a
    assert len(ctx.outcomes) > 1000, len(ctx.outcomes)
    ctx.count("L1:executions", sum(v for k, v in c.items() if k.startswith("L1:exec:")))
    ctx.count("L2:transitions", sum(v for k, v in c.items() if k.startswith("L2:trans:")))
    ctx.count("L3:ga-runs", sum(v for k, v in c.items() if k.startswith("L3:runs:")))


def replay(case, ctx):
    from ..explore import ReplayDivergence
    try:
        if case["layer"] == "L1":
            l1_run(ctx, case["algo"], case["spec"], answers=case["answers"])
        elif case["layer"] == "L2":
            par = dict(case["par"])
            par["umenu"] = tuple(par["umenu"])
            l2_run(ctx, case["op"], case["spec"], case["parents"], par, answers=case["answers"])
        elif case["layer"] == "L3":
            if case["tag"].startswith(REUSE):
                l3_seq_run(ctx, case["cls"], case["tag"], case["spec"], case["pop_size"], case["ngen"], case["pin"])
            else:
                l3_run(ctx, case["cls"], case["tag"], case["spec"], case["pop_size"], case["ngen"], case["pin"])
    except ReplayDivergence:
        # the recorded environment answers do not exist on this tree (e.g. the draw is now without replacement):
        # the recorded execution is unreachable here, hence no violation to report
        ctx.flag("replay:recorded-answers-unreachable-on-this-tree")
