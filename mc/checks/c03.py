"""C03 - labels stay attached to their data under every matrix operation history.

Explicit-state BFS over operation histories on real matrix objects, in lock-step with the list-of-entities
reference model of mc/ref/labelled.py.  One generic harness, driven by the class-descriptor table CLASSES, covers
all labelled matrix classes; the three genotyping protocols are applied as terminal single operations at every
reached DensePhasedGenotypeMatrix state (plus a dedicated all-masks enumeration).

One BFS transition = one *abstract* operation (e.g. "delete index list [0, 2] along the variant axis").  It is
executed through every public form the class offers - axis-specific non-mutating (delete_vrnt), axis-generic
with positive and negative axis (delete(axis=1), delete(axis=-1)), mutating counterpart (remove_vrnt,
remove(axis=..)) - each on its own copy of the state.  Oracles on every transition:
 (a) entity alignment: label arrays and provenance-coded cells equal the reference, position by position
 (b) non-mutating forms leave self and operands bit-identical; mutating forms leave operands bit-identical
 (c) mutating form == non-mutating counterpart in full canonical state (group metadata reset)
 (d) axis-generic form == axis-specific form (state, and return value of lexsort / is_grouped)
 (e) whenever is_grouped*() is true the (name, stix, spix, len) arrays are a true contiguous partition of the
     group labels currently on that axis
 (f) the state reached functionally equals the state reached by replaying the whole history in place on ONE
     fresh live object (mutating forms, no copies)
 (g) no aliasing: at every initial and depth-1 state the object returned by each kind of non-mutating operation (and by
     copy()/copy.copy()/deepcopy(), and the genotyping outputs) is mutated by every axis-specific mutating operation
     while the source and the operand must stay bit-identical, and the source is mutated while the earlier result
     must stay bit-identical (run wherever result and source share array memory)
 (i) index types: at every initial state the same logical position / index list is passed to select, delete/remove,
     insert/incorp and reorder (axis-specific and generic, mutating and not) as python int, numpy.int64 / int32 /
     intp scalar, list, tuple, int64 and int32 ndarray; every documented form must give the reference result
 (h) argument forms: adjoin/append/insert/incorp with the operand as matrix object or raw ndarray crossed with
     every single label keyword override, all overrides together and omitted names - an explicit keyword wins,
     otherwise the operand's own labels are used
A transition on which some form violates an oracle is recorded; the successor is taken from a form that
satisfied the reference (if none did, the successor is pruned and not expanded).  Oracle (f) is applied as long as
the axis-specific in-place form of every step of the history passed (otherwise it would repeat that violation).

Signatures are "<class that implements the method>.<method>:<failure kind>"; a generic form that fails exactly as
the axis-specific form it dispatches to is counted under the latter; an operation along one axis that drops the
labels of another axis is attributed to the class family that should forward them; size symptoms (wrong result
shape, the library's own shape validators, numpy broadcasting / index errors) are one kind ":shape".
"""
from __future__ import annotations
import hashlib, importlib, itertools, math
import numpy

from .. import compat  # noqa: F401
from ..core import Violation, require
from ..explore import bfs
from ..ref import labelled as R
from ..ref.labelled import FREE

ID = "C03"
TECHNIQUE = ("explicit-state breadth-first search over operation histories on real matrix objects (canonical-state "
             "de-duplication), lock-step with a list-of-entities reference model; every abstract operation is run "
             "through all its public forms (axis-specific / axis-generic +-axis / mutating) as a differential oracle")
RULE = ("[+ oracle (g) at every initial and depth-1 state: mutate the result of each kind of copy-on-manipulation operation / "
        "copy / genotyping output and require source and operand bit-identical, and vice versa; + at every initial state "
        "every operand-taking operation with matrix / ndarray operand x every single "
        "label keyword override, all overrides, names omitted] state = all observable fields of the object (mat bytes, every label array or None, every group-metadata "
        "array or None, dtypes); transition = one abstract structural operation (select / delete / insert / adjoin / "
        "concat / reorder / sort / explicit-key sort / group / ungroup on one labelled axis, with every valid index "
        "argument in scope: all index lists and permutations for axis length <= 3 and a covering family above, all "
        "slices, int / list / slice positions, operands from a 2-element pool) executed through all its forms; "
        "initial states = shapes {1,2,3}^axes x label profiles (unique, duplicated, each optional array absent, all "
        "absent) x grouped/ungrouped; non-trivial = the transition changes the canonical state; distinct by digest "
        "of (state, operation)")
ASSUME = ["numpy.take / delete / insert / append / concatenate / lexsort / unique behave as documented (trusted base); "
          "the reference model itself uses none of them",
          "mc/compat.py restores removed numpy names only",
          "operands have the same optional label arrays as the matrix they are joined to (documented precondition); "
          "axes never become empty; boolean index masks are not generated (not documented for take/delete/insert)",
          "DenseBreedingValueMatrix is compared on unscale() (rel 1e-9) and labels only; location/scale are C15's: value "
          "mismatches of inherited TAXA-axis methods (concat_taxa, append_taxa, incorp_taxa) are only counted "
          "(counter deferred-to-C15:*) because they are recorded under property C15; trait-axis ones are reported here",
          "the harness' own object builder / cloner uses only the public constructors and metadata setters"]

# ------------------------------------------------------------------------------------------------------------------
# class descriptor table
CLASSES = {
    # name: (module, phys axes kinds, dtype)
    "DenseTaxaMatrix": ("pybrops.core.mat.DenseTaxaMatrix", ("taxa", "other"), "float64"),
    "DenseVariantMatrix": ("pybrops.core.mat.DenseVariantMatrix", ("vrnt", "other"), "int64"),
    "DenseTraitMatrix": ("pybrops.core.mat.DenseTraitMatrix", ("trait", "other"), "float64"),
    "DensePhasedMatrix": ("pybrops.core.mat.DensePhasedMatrix", ("phase", "other"), "float64"),
    "DenseTaxaVariantMatrix": ("pybrops.core.mat.DenseTaxaVariantMatrix", ("taxa", "vrnt"), "float64"),
    "DensePhasedTaxaVariantMatrix": ("pybrops.core.mat.DensePhasedTaxaVariantMatrix", ("phase", "taxa", "vrnt"), "float64"),
    "DenseTaxaTraitMatrix": ("pybrops.core.mat.DenseTaxaTraitMatrix", ("taxa", "trait"), "float64"),
    "DenseSquareTaxaMatrix": ("pybrops.core.mat.DenseSquareTaxaMatrix", ("taxa", "taxa"), "float64"),
    "DenseSquareTaxaTraitMatrix": ("pybrops.core.mat.DenseSquareTaxaTraitMatrix", ("taxa", "taxa", "trait"), "float64"),
    "DenseGenotypeMatrix": ("pybrops.popgen.gmat.DenseGenotypeMatrix", ("taxa", "vrnt"), "int8"),
    "DensePhasedGenotypeMatrix": ("pybrops.popgen.gmat.DensePhasedGenotypeMatrix", ("phase", "taxa", "vrnt"), "int8"),
    "DenseBreedingValueMatrix": ("pybrops.popgen.bvmat.DenseBreedingValueMatrix", ("taxa", "trait"), "float64"),
    "DenseMolecularCoancestryMatrix": ("pybrops.popgen.cmat.DenseMolecularCoancestryMatrix", ("taxa", "taxa"), "float64"),
    "DenseTwoWayDHAdditiveGeneticVarianceMatrix": ("pybrops.model.vmat.DenseTwoWayDHAdditiveGeneticVarianceMatrix",
                                                   ("taxa", "taxa", "trait"), "float64"),
}
BASE3 = ("DenseTaxaMatrix", "DenseVariantMatrix", "DenseTraitMatrix")
SCALED = ("DenseBreedingValueMatrix",)

OPS_BY_KIND = {
    "taxa": ("select", "delete", "insert", "adjoin", "concat", "reorder", "sort", "sort_lex", "sortk", "sortk_lex",
             "group", "ungroup"),
    "vrnt": ("select", "delete", "insert", "adjoin", "concat", "reorder", "sort", "sort_lex", "sortk", "sortk_lex",
             "group", "ungroup"),
    "trait": ("select", "delete", "insert", "adjoin", "concat", "reorder", "sort", "sort_lex", "sortk", "sortk_lex"),
    "phase": ("select", "delete", "insert", "adjoin", "concat"),
    "other": (),
}


class Desc:
    _cache = {}

    def __init__(self, name, seed):
        mod, phys, dtype = CLASSES[name]
        self.name, self.phys, self.dtype, self.seed = name, phys, dtype, seed
        self.cls = getattr(importlib.import_module(mod), name)
        self.kinds = tuple(dict.fromkeys(phys))
        self.ndim = len(phys)
        self.coder = R.Coder(phys, dtype, seed)
        self.scaled = name in SCALED
        self.fields = tuple(f for k in self.kinds for f in R.KIND_FIELDS[k])
        self.gkinds = tuple(k for k in self.kinds if k in R.GROUP_FIELD)
        self.square_kinds = tuple(k for k in self.kinds if phys.count(k) > 1)
        self.metas = tuple(m for k in self.gkinds for m in R.meta_fields(k))
        self._owner = {}

    @classmethod
    def get(cls, name, seed):
        k = (name, seed % R.N_SEED_VARIANTS)
        if k not in cls._cache:
            cls._cache[k] = Desc(name, seed)
        return cls._cache[k]

    def axes_of(self, kind):
        return [i for i, k in enumerate(self.phys) if k == kind]

    def owner(self, meth):
        """Name of the class that really implements `meth`: first class in the MRO defining it whose body does not
        delegate to super() (so an inherited defect has one signature, wherever it is observed)."""
        if meth not in self._owner:
            import inspect
            o = self.cls.__name__
            for k in self.cls.__mro__:
                if meth in k.__dict__:
                    o = k.__name__
                    try:
                        f = k.__dict__[meth]
                        f = getattr(f, "__func__", f)
                        if "super(" not in inspect.getsource(f):
                            break
                    except (OSError, TypeError):
                        break
            self._owner[meth] = o
        return self._owner[meth]

    def sig(self, meth):
        return f"{self.owner(meth)}.{meth}"

    @property
    def family(self):
        """Most basic class in the MRO that already carries all label kinds of this class: the class responsible
        for forwarding the labels of the *other* axes when an operation acts on one axis."""
        attr = {"taxa": "taxa_grp", "vrnt": "vrnt_chrgrp", "trait": "trait", "phase": "phase_axis"}
        need = [attr[k] for k in self.kinds if k in attr]
        fam = self.cls.__name__
        for k in self.cls.__mro__:
            if k.__name__.startswith("Dense") and all(hasattr(k, a) for a in need):
                fam = k.__name__
        return fam

    # ---- scaling of breeding value matrices (values chosen so that all arithmetic is exact in binary)
    def loc_scale(self, ref, operand=False):
        """Location / scale given to a freshly built matrix; operands get different ones than the matrix they are
        joined to (two breeding value matrices over the same traits need not be standardised alike)."""
        us = [e[0] for e in ref.axes["trait"]]
        loc = numpy.array([10.0 * u + 1.0 + (4.0 if operand else 0.0) for u in us])
        scl = numpy.array([(0.5, 1.0, 2.0)[u % 3] * (4.0 if operand else 1.0) for u in us])
        return loc, scl

    def data(self, obj):
        return obj.unscale() if self.scaled else obj.mat


# ------------------------------------------------------------------------------------------------------------------
# building real objects from a reference state (public constructor + public metadata setters only)
def expected_mat(D, ref):
    """The matrix the reference predicts: cell = provenance code of the entities at that position (NaN where a
    square matrix has no value for a pair of entities that were never part of the same matrix)."""
    a = numpy.array(ref.cells(D.coder), dtype=object)
    if D.dtype == "float64":
        return numpy.array([numpy.nan if v is None else v for v in a.ravel()], dtype="float64").reshape(a.shape)
    assert all(v is not None for v in a.ravel())
    return a.astype(D.dtype)


def label_array(field, vals):
    dt = R.FIELD_DTYPE[field]
    if dt == "object":
        a = numpy.empty(len(vals), dtype=object)
        for i, v in enumerate(vals):
            a[i] = v
        return a
    return numpy.array(vals, dtype=dt)


def build(D, ref, operand=False):
    mat = expected_mat(D, ref)
    kw = {}
    for k in D.kinds:
        for f in R.KIND_FIELDS[k]:
            v = ref.labels(f, k)
            kw[f] = None if v is None else label_array(f, v)
    if D.scaled:
        loc, scl = D.loc_scale(ref, operand)
        obj = D.cls(mat=(mat - loc[None, :]) / scl[None, :], location=loc, scale=scl, **kw)
    else:
        obj = D.cls(mat=mat, **kw)
    for k in D.gkinds:
        m = ref.meta(k)
        if m is not None:
            for mf, vals in zip(R.meta_fields(k), m):
                setattr(obj, mf, numpy.array(vals, dtype="int64"))
    return obj


def clone(D, obj):
    """Field-wise copy through the public constructor and setters (independent of the library's __deepcopy__)."""
    kw = {f: (None if getattr(obj, f) is None else getattr(obj, f).copy()) for f in D.fields}
    if D.scaled:
        new = D.cls(mat=obj.mat.copy(), location=obj.location.copy(), scale=obj.scale.copy(), **kw)
    elif hasattr(obj, "ploidy") and "phase" not in D.phys:
        new = D.cls(mat=obj.mat.copy(), ploidy=obj.ploidy, **kw)
    else:
        new = D.cls(mat=obj.mat.copy(), **kw)
    for m in D.metas:
        v = getattr(obj, m)
        setattr(new, m, None if v is None else v.copy())
    return new


def operand_ref(ref, kind, which):
    o = ref.copy()
    o.axes[kind] = ref.operand_ents(kind, which)
    if kind in R.GROUP_FIELD:
        o.grouped[kind] = bool(which == "B" and ref.present.get(R.GROUP_FIELD[kind], False))
    return o


# ------------------------------------------------------------------------------------------------------------------
# canonical state
def state_key(D, obj, skip_meta_of=None):
    """Digest of exactly the observable fields (no abstraction beyond object identity): class, mat (dtype, shape,
    bytes; one NaN payload), every label array or None, every group-metadata array or None, ploidy.  For scaled
    matrices the data entry is unscale() rounded to 1e-6 (location/scale are C15's business)."""
    parts = [type(obj).__name__.encode()]
    ap = parts.append
    m = numpy.round(obj.unscale(), 6) + 0.0 if D.scaled else obj.mat
    if m.dtype.kind == "f" and numpy.isnan(m).any():
        m = m.copy()
        m[numpy.isnan(m)] = numpy.nan
    ap(m.dtype.str.encode()); ap(str(m.shape).encode()); ap(m.tobytes())
    skip = R.meta_fields(skip_meta_of) if skip_meta_of in R.META_PREFIX else ()
    for f in D.fields + D.metas:
        if f in skip:
            continue
        v = getattr(obj, f)
        if v is None:
            ap(b"\x00N")
        elif v.dtype.kind == "O":
            ap(b"O" + repr(v.tolist()).encode())
        else:
            ap(v.dtype.str.encode()); ap(str(v.shape).encode()); ap(v.tobytes())
    if hasattr(obj, "ploidy"):
        ap(b"p%d" % int(obj.ploidy))
    return hashlib.blake2b(b"|".join(parts), digest_size=10).digest()


# ------------------------------------------------------------------------------------------------------------------
# oracle (a) + (e): the real object against the reference state
def _tolist(a):
    return a.tolist()


def check_ref(D, obj, ref, sig, is_grouped_generic=True, exp_mat=None, opkind=None, stale=":stale-group-metadata"):
    require(type(obj) is D.cls, sig + ":type", lambda: f"result is a {type(obj).__name__}, expected {D.name}")
    exp_shape = tuple(ref.n(k) for k in D.phys)
    got_shape = tuple(obj.mat.shape)
    require(got_shape == exp_shape, sig + ":shape",
            lambda: f"matrix shape {got_shape}, reference has {exp_shape} entities on axes {D.phys}")
    for k in D.kinds:
        for f in R.KIND_FIELDS[k]:
            exp = ref.labels(f, k)
            got = getattr(obj, f)
            if exp is None:
                require(got is None, sig + ":label-array-appeared:" + f, lambda: f"{f} was absent, now {got}")
                continue
            if got is None and opkind is not None and k != opkind:
                raise Violation(f"@{D.family}:{opkind}-axis-operation-loses-{k}-labels",
                                f"an operation along the {opkind} axis returned a matrix whose {f} is None; the "
                                f"{k} axis was not touched and carried {exp}")
            require(got is not None, sig + ":label-array-lost:" + f, lambda: f"{f} is None, expected {exp}")
            require(_tolist(got) == exp, sig + ":labels:" + f,
                    lambda: f"{f} = {_tolist(got)} but the entities now on the {k} axis were created with {exp}")
            dt = R.FIELD_DTYPE[f]
            okdt = (got.dtype == object) if dt == "object" else (got.dtype.kind in "iu") if dt == "int64" \
                else (got.dtype == numpy.dtype(dt))
            require(okdt, sig + ":label-dtype:" + f, lambda: f"{f} has dtype {got.dtype}, created as {dt}")
    exp_mat = expected_mat(D, ref) if exp_mat is None else exp_mat
    got_mat = D.data(obj)
    if D.scaled:
        ok = bool(numpy.all(numpy.isclose(got_mat, exp_mat, rtol=1e-9, atol=1e-9, equal_nan=True)))
    else:
        ok = bool(numpy.array_equal(got_mat, exp_mat, equal_nan=(exp_mat.dtype.kind == "f")))
        require(got_mat.dtype == exp_mat.dtype, sig + ":data-dtype", lambda: f"mat dtype {got_mat.dtype}, was {exp_mat.dtype}")
    require(ok, sig + ":data",
            lambda: f"cells are not those of the labelled entities: got {got_mat.tolist()} expected {exp_mat.tolist()} "
                    f"(cell = code of the entity ids on axes {D.phys})")
    for k in D.gkinds:
        suffix = R.SUFFIX[k]
        isg = getattr(obj, "is_grouped" + suffix)()
        require(isinstance(isg, (bool, numpy.bool_)), sig + ":is_grouped-type", lambda: f"is_grouped{suffix}() returned {isg!r}")
        metas = [getattr(obj, m) for m in R.meta_fields(k)]
        flag = ref.grouped[k]
        glabels = ref.column(R.GROUP_FIELD[k], k)
        desc = lambda: (f"{k} axis group labels {glabels}; metadata name/stix/spix/len = "
                        f"{[None if m is None else m.tolist() for m in metas]}")
        if isg:
            have = all(m is not None for m in metas) and ref.present.get(R.GROUP_FIELD[k], False)
            part = have and R.is_partition(glabels, *[m.tolist() for m in metas])
            if flag is False:
                require(False, sig + ":group-metadata-not-reset", lambda: "axis must be ungrouped after this operation; " + desc())
            if not part and have:
                # is it a true partition once zero-length groups are dropped?  (distinct, milder root cause)
                ml = [m.tolist() for m in metas]
                keep = [i for i, n_ in enumerate(ml[3]) if n_ != 0] if len({len(x) for x in ml}) == 1 else []
                if keep and len(keep) < len(ml[3]) and R.is_partition(glabels, *[[x[i] for i in keep] for x in ml]):
                    require(False, sig + ":empty-group-kept",
                            lambda: "group metadata lists a group that has no member on the axis: " + desc())
            require(part, sig + (stale if flag == FREE else ":group-metadata-wrong"),
                    lambda: "matrix reports itself grouped but the metadata is not a true contiguous partition: " + desc())
        else:
            require(flag is not True, sig + ":not-grouped", lambda: "axis should be grouped; " + desc())
            if flag is False:
                require(all(m is None for m in metas), sig + ":group-metadata-not-reset",
                        lambda: "partial group metadata left behind; " + desc())
        if is_grouped_generic:
            for a in D.axes_of(k):
                for ax in (a, a - D.ndim):
                    g2 = obj.is_grouped(axis=ax)
                    require(bool(g2) == bool(isg), "@" + D.sig("is_grouped") + ":generic-differs",
                            lambda: f"is_grouped(axis={ax}) = {g2} but is_grouped{suffix}() = {isg}")


# ------------------------------------------------------------------------------------------------------------------
# the forms of an abstract operation
class Form:
    """One public way of performing an abstract operation.  `base` = "<implementing class>.<method>" is the call
    site part of a signature; `tag` (if set) names an argument class that identifies a root cause by itself and
    replaces the symptom in the signature."""
    __slots__ = ("meth", "base", "tag", "mutating", "fn", "free")

    def __init__(self, meth, base, tag, mutating, fn, free=False):
        self.meth, self.base, self.tag, self.mutating, self.fn, self.free = meth, base, tag, mutating, fn, free

    def sig(self, kind):
        if kind.startswith("@"):
            return kind[1:]
        return self.base + self.tag if self.tag else self.base + kind


def run_guarded(F, fn):
    """Run fn; return None if it passed, else (kind, detail) with kind = relative failure kind (':labels:taxa',
    ':exception:ValueError@file:func') or an absolute signature prefixed with '@'."""
    import os, traceback
    try:
        fn()
        return None
    except Violation as v:
        return v.sig, str(v.detail)
    except Exception as e:   # library exception on a model-valid call
        tb = traceback.extract_tb(e.__traceback__)
        site = next((f"{os.path.basename(f.filename)}:{f.name}" for f in reversed(tb) if "/pybrops/" in f.filename),
                    "harness")
        msg = f"{type(e).__name__}: {e}"
        if _SHAPE_RE.search(str(e)):          # the library's own shape validators / numpy broadcasting firing
            return ":shape", msg + f"  (raised at {site})"
        return f":exception:{type(e).__name__}@{site}", msg


import re as _re
_SHAPE_RE = _re.compile(r"shape|broadcast|align along axis|axis lengths|dimension|same length|out of bounds", _re.I)


def _argkind(a):
    a = R.decode_arg(a)
    return "slice" if isinstance(a, slice) else "int" if isinstance(a, int) else "seq"


def make_forms(D, op, ref):
    """List of Form; fn(target, operand) -> resulting object (the returned one, or target for mutating forms)."""
    kind, name = op["kind"], op["op"]
    sfx = R.SUFFIX[kind]
    axes = D.axes_of(kind)
    gen_axes = list(axes) + [axes[-1] - D.ndim]
    forms = []
    cls = D.cls

    def add(meth, mutating, fn, free=False, tag=""):
        if hasattr(cls, meth.split("+")[0]):
            forms.append(Form(meth, D.sig(meth.split("+")[-1]), tag, mutating, fn, free))

    def mut(meth, call):
        def g(t, o):
            r = call(t, o)
            if r is not None:
                raise Violation(":returns-value", f"{meth} is documented to work in place and return None, returned {type(r).__name__}")
            return t
        return g

    def lab(o):      # label keyword arguments of the operand along this axis (documented alternative call form)
        return {f: getattr(o, f) for f in R.KIND_FIELDS[kind]}
    raw_ok = not D.scaled and name in ("insert", "adjoin")

    if name == "select":
        idx = list(op["arg"])
        add("select" + sfx, False, lambda t, o: getattr(t, "select" + sfx)(idx))
        add("select" + sfx, False, lambda t, o: getattr(t, "select" + sfx)(numpy.array(idx, dtype="int64")), tag="")
        for a in gen_axes:
            add("select", False, lambda t, o, a=a: t.select(idx, axis=a))
    elif name == "delete":
        arg = R.decode_arg(op["arg"])
        tag = ""
        add("delete" + sfx, False, lambda t, o: getattr(t, "delete" + sfx)(arg), tag=tag)
        for a in gen_axes:
            add("delete", False, lambda t, o, a=a: t.delete(arg, axis=a), tag=tag)
        add("remove" + sfx, True, mut("remove" + sfx, lambda t, o: getattr(t, "remove" + sfx)(arg)), tag=tag)
        for a in gen_axes:
            add("remove", True, mut("remove", lambda t, o, a=a: t.remove(arg, axis=a)), tag=tag)
    elif name == "insert":
        arg = R.decode_arg(op["arg"])
        tag = ":scalar-obj-on-axis>0" if (_argkind(op["arg"]) == "int" and min(axes) > 0) else ""
        add("insert" + sfx, False, lambda t, o: getattr(t, "insert" + sfx)(arg, o), tag=tag)
        for a in gen_axes:
            add("insert", False, lambda t, o, a=a: t.insert(arg, o, axis=a), tag=tag)
        add("incorp" + sfx, True, mut("incorp" + sfx, lambda t, o: getattr(t, "incorp" + sfx)(arg, o)), tag=tag)
        for a in gen_axes:
            add("incorp", True, mut("incorp", lambda t, o, a=a: t.incorp(arg, o, axis=a)), tag=tag)
        if raw_ok:
            add("insert" + sfx, False, lambda t, o: getattr(t, "insert" + sfx)(arg, o.mat, **lab(o)), tag=tag)
            add("insert", False, lambda t, o: t.insert(arg, o.mat, axis=gen_axes[-1], **lab(o)), tag=tag)
            add("incorp" + sfx, True, mut("incorp" + sfx, lambda t, o: getattr(t, "incorp" + sfx)(arg, o.mat, **lab(o))), tag=tag)
            add("incorp", True, mut("incorp", lambda t, o: t.incorp(arg, o.mat, axis=gen_axes[0], **lab(o))), tag=tag)
    elif name == "adjoin":
        add("adjoin" + sfx, False, lambda t, o: getattr(t, "adjoin" + sfx)(o))
        for a in gen_axes:
            add("adjoin", False, lambda t, o, a=a: t.adjoin(o, axis=a))
        add("append" + sfx, True, mut("append" + sfx, lambda t, o: getattr(t, "append" + sfx)(o)))
        for a in gen_axes:
            add("append", True, mut("append", lambda t, o, a=a: t.append(o, axis=a)))
        if raw_ok:
            add("adjoin" + sfx, False, lambda t, o: getattr(t, "adjoin" + sfx)(o.mat, **lab(o)))
            add("adjoin", False, lambda t, o: t.adjoin(o.mat, axis=gen_axes[-1], **lab(o)))
            add("append" + sfx, True, mut("append" + sfx, lambda t, o: getattr(t, "append" + sfx)(o.mat, **lab(o))))
            add("append", True, mut("append", lambda t, o: t.append(o.mat, axis=gen_axes[0], **lab(o))))
    elif name == "concat":
        first_self = op.get("first") != "operand"
        order = (lambda t, o: [t, o]) if first_self else (lambda t, o: [o, t])
        add("concat" + sfx, False, lambda t, o: getattr(type(t), "concat" + sfx)(order(t, o)))
        for a in gen_axes:
            add("concat", False, lambda t, o, a=a: type(t).concat(order(t, o), axis=a))
    elif name == "reorder":
        perm = list(op["arg"])
        add("reorder" + sfx, True, mut("reorder" + sfx, lambda t, o: getattr(t, "reorder" + sfx)(numpy.array(perm, dtype="int64"))), free=True)
        for a in gen_axes:
            add("reorder", True, mut("reorder", lambda t, o, a=a: t.reorder(numpy.array(perm, dtype="int64"), axis=a)), free=True)
    elif name in ("sort", "sortk", "sort_lex", "sortk_lex"):
        def keys_of(t):
            if name.startswith("sortk"):
                return tuple(numpy.array(c, dtype="int64") for c in ref.explicit_keys(kind, op["arg"]))
            return None
        exp_perm = ref.sort_perm(kind, op)
        if not name.endswith("_lex"):
            add("sort" + sfx, True, mut("sort" + sfx, lambda t, o: getattr(t, "sort" + sfx)(keys_of(t))))
            for a in gen_axes:
                add("sort", True, mut("sort", lambda t, o, a=a: t.sort(keys_of(t), axis=a)))
        else:
            def lex_then_reorder(t, lex, reo):
                ix = lex(t)
                require(isinstance(ix, numpy.ndarray) and ix.tolist() == exp_perm, "@" + D.sig("lexsort" + sfx) + ":indices",
                        lambda: f"lexsort returned {ix!r}, the stable sort permutation is {exp_perm}")
                r = reo(t, ix)
                return t
            add("lexsort" + sfx + "+reorder" + sfx, True,
                lambda t, o: lex_then_reorder(t, lambda t: getattr(t, "lexsort" + sfx)(keys_of(t)),
                                              lambda t, ix: getattr(t, "reorder" + sfx)(ix)), free=True)
            for a in gen_axes:
                add("lexsort+reorder" + sfx, True,
                    lambda t, o, a=a: lex_then_reorder(t, lambda t: t.lexsort(keys_of(t), axis=a),
                                                       lambda t, ix: getattr(t, "reorder" + sfx)(ix)), free=True)
    elif name == "group":
        add("group" + sfx, True, mut("group" + sfx, lambda t, o: getattr(t, "group" + sfx)()))
        for a in gen_axes:
            add("group", True, mut("group", lambda t, o, a=a: t.group(axis=a)))
    elif name == "ungroup":
        add("ungroup" + sfx, True, mut("ungroup" + sfx, lambda t, o: getattr(t, "ungroup" + sfx)()))
        for a in gen_axes:
            add("ungroup", True, mut("ungroup", lambda t, o, a=a: t.ungroup(axis=a)))
    else:
        raise KeyError(name)
    return forms


LIVE_FORM = {"delete": "remove", "insert": "incorp", "adjoin": "append", "reorder": "reorder", "sort": "sort",
             "sortk": "sort", "group": "group", "ungroup": "ungroup", "select": "select", "concat": "concat",
             "sort_lex": "lexsort", "sortk_lex": "lexsort"}


def live_apply(D, obj, op, ref):
    """Apply the abstract op to the single live object, in place where a mutating axis-specific form exists."""
    forms = make_forms(D, op, ref)
    want = LIVE_FORM[op["op"]]
    F = next(f for f in forms if f.meth.startswith(want))
    operand = build(D, operand_ref(ref, op["kind"], op["operand"]), operand=True) if op.get("operand") else None
    return F.fn(obj, operand), F


# ------------------------------------------------------------------------------------------------------------------
# alphabet
def _sl(a, b, c=None):
    return {"slice": [a, b, c]}


def index_args(n):
    """(select lists, delete objects, permutations) for an axis of length n; complete for n <= 3."""
    if n <= 3:
        sel = [list(p) for r in range(1, n + 1) for p in itertools.permutations(range(n), r)]
        sel += [[0, 0], [-1]]
        perms = [list(p) for p in itertools.permutations(range(n))]
        dele = list(range(n)) + [-1]
        dele += [_sl(a, b) for a in range(n) for b in range(a + 1, n + 1)] + [_sl(None, None, 2), _sl(1, None)]
        dele += [list(c) for r in range(0, n) for c in itertools.combinations(range(n), r)] + [[-1, 0]]
    else:
        sel = [[i] for i in range(n)] + [list(range(n - 1, -1, -1)), list(range(1, n)) + [0], list(range(0, n, 2)),
                                         [0, n - 1], [-1, 0], [1, 1], list(range(n))]
        perms = [list(range(n)), list(range(n - 1, -1, -1)), list(range(1, n)) + [0], [1, 0] + list(range(2, n)),
                 list(range(n - 2)) + [n - 1, n - 2]]
        dele = list(range(n)) + [-1, _sl(0, 2), _sl(1, None), _sl(None, None, 2), _sl(n - 2, n), _sl(1, n - 1),
                                  [], [0, n - 1], [1, 2], [n - 1, 0], [-1, 0], list(range(1, n))]
    return sel, dele, perms


def alphabet(D, ref, nmax):
    """All valid abstract operations in this state (deterministic order); second value = #ops cut by the size bound."""
    ops = []
    cut = 0
    for kind in D.kinds:
        names = OPS_BY_KIND[kind]
        if not names:
            continue
        n = ref.n(kind)
        sel, dele, perms = index_args(n)
        for s in sel:
            ops.append({"kind": kind, "op": "select", "arg": s})
        for d in dele:
            ops.append({"kind": kind, "op": "delete", "arg": d})
        for which in ("A", "B"):
            k = len(R.POOL[kind][which])
            if n + k > nmax:
                cut += 1
                continue
            ops.append({"kind": kind, "op": "adjoin", "operand": which})
            ops.append({"kind": kind, "op": "concat", "operand": which, "first": "self"})
            ops.append({"kind": kind, "op": "concat", "operand": which, "first": "operand"})
            for p in range(n + 1):
                ops.append({"kind": kind, "op": "insert", "arg": p, "operand": which})
            ops.append({"kind": kind, "op": "insert", "arg": -1, "operand": which})
            ops.append({"kind": kind, "op": "insert", "arg": [n // 2], "operand": which})
            if k == 2:
                ops.append({"kind": kind, "op": "insert", "arg": [0, n], "operand": which})
                ops.append({"kind": kind, "op": "insert", "arg": [n - 1, n - 1], "operand": which})
                if n >= 2:
                    ops.append({"kind": kind, "op": "insert", "arg": _sl(0, 2), "operand": which})
        if "reorder" in names:
            for p in perms:
                ops.append({"kind": kind, "op": "reorder", "arg": p})
            ops.append({"kind": kind, "op": "sort"})
            ops.append({"kind": kind, "op": "sort_lex"})
            for kk in ("k1", "k2", "k3"):
                ops.append({"kind": kind, "op": "sortk", "arg": kk})
            ops.append({"kind": kind, "op": "sortk_lex", "arg": "k2"})
        if "group" in names:
            ops.append({"kind": kind, "op": "group"})
            ops.append({"kind": kind, "op": "ungroup"})
    return ops, cut


# ------------------------------------------------------------------------------------------------------------------
# initial states
def profiles(D):
    """Label profiles: (name, present dict, dup)."""
    fs = D.fields
    out = [("full", {f: True for f in fs}, False)]
    if fs:
        out.append(("dup", {f: True for f in fs}, True))
        for f in fs:
            out.append(("no_" + f, {g: (g != f) for g in fs}, False))
        if len(fs) > 1:
            out.append(("bare", {f: False for f in fs}, False))
    return out


def sizes_for(D, kind):
    if kind == "other":
        return (2,)
    if kind == "phase":
        return (2, 1)          # a single phase only together with equal lengths on the other axes (see below)
    return (1, 2, 3)


def grouped_entities(ref, kind):
    """Entities of an axis in grouped (= default sorted) order."""
    keys = ref.default_keys(kind)
    perm = R.l_sort_perm(ref.n(kind), [ref.column(f, kind) for f in keys])
    return R.l_select(ref.axes[kind], perm)


def initial_ref(D, init):
    """init = dict(shape=[n per kind in D.kinds order], profile=name, grouped=[kinds grouped])"""
    prof = {p[0]: p for p in profiles(D)}[init["profile"]]
    axes = {}
    for k, n in zip(D.kinds, init["shape"]):
        axes[k] = tuple((u, 0, ()) for u in range(n))
    ref = R.Ref(D.phys, axes, prof[1], {k: False for k in D.gkinds}, seed=D.seed, dup=prof[2],
                maskbits=init.get("maskbits"))
    for k in init["grouped"]:
        assert ref.present.get(R.GROUP_FIELD[k], False)
        ref.axes[k] = grouped_entities(ref, k)
        ref.grouped[k] = True
    return ref


def initial_states(D, tier_profiles=None, shapes=None, gmode="all"):
    """gmode 'all': every subset of groupable axes grouped (none / each / all); 'ends': none and all only."""
    out = []
    for pname, present, dup in profiles(D):
        if tier_profiles is not None and pname not in tier_profiles:
            continue
        gk = [k for k in D.gkinds if present.get(R.GROUP_FIELD[k], False)]
        gsets = [[]] + ([[k] for k in gk] if gmode == "all" or len(gk) == 1 else []) + ([gk] if len(gk) > 1 else [])
        for shape in itertools.product(*[sizes_for(D, k) for k in D.kinds]):
            if shapes is not None and tuple(shape) not in shapes:
                continue
            if "phase" in D.kinds and shape[D.kinds.index("phase")] == 1 and \
                    len({n for k, n in zip(D.kinds, shape) if k not in ("phase", "other")}) > 1:
                continue
            for g in gsets:
                out.append({"shape": list(shape), "profile": pname, "grouped": list(g)})
    return out


# ------------------------------------------------------------------------------------------------------------------
class Node:
    """BFS node.  live_ok: every step of the history that led here passed through ALL its forms, so the in-place
    replay of that history (oracle f) is meaningful; after a recorded violation it would only repeat it."""
    __slots__ = ("obj", "ref", "key", "init", "live_ok")

    def __init__(self, obj, ref, key, init, live_ok=True):
        self.obj, self.ref, self.key, self.init, self.live_ok = obj, ref, key, init, live_ok


def opname(op):
    return f"{op['kind']}:{op['op']}"


def step(ctx, D, node, op, history, do_live=True):
    """Execute one abstract operation through all its forms.  Returns the successor Node, or None if pruned."""
    ref = node.ref
    ref2 = ref.apply(op)
    kind = op["kind"]
    case = {"cls": D.name, "init": node.init, "history": list(history), "op": op, "seed": D.seed}
    forms = make_forms(D, op, ref)
    ctx.evaluations += 1
    passed = []         # (form, obj, key_full, key_sans_target_meta)
    all_ok = True
    seen_keys = set()
    root_fail = {}      # mutating? -> failure kind of the axis-specific form (root of the dispatch chain)
    operand = okey = None
    any_free = any(f.free for f in forms)
    for fi, F in enumerate(forms):
        if op.get("operand") and operand is None:      # (re)built only at the start or after a form damaged it
            operand = build(D, operand_ref(ref, kind, op["operand"]), operand=True)
            okey = state_key(D, operand)
        target = clone(D, node.obj) if F.mutating else node.obj
        box = {}

        def run(F=F, operand=operand, okey=okey, target=target):
            out = F.fn(target, operand)
            if not F.mutating:
                require(out is not node.obj, ":returns-self", "a copy-on-manipulation routine returned self")
            kf = state_key(D, out)
            if kf not in seen_keys:       # a state already validated by another form needs no second comparison
                check_ref(D, out, _ref_for_form(ref2, ref, kind, F, op), "", opkind=kind)
            box["out"], box["kf"] = out, kf

        res = run_guarded(F, run)
        ctx.transitions += 1
        ctx.count(f"form:{D.name}:{F.meth}")
        # (b) non-mutating forms leave self bit-identical; no form touches its operand.  Checked after every form so
        # that a damaged object is never handed to the next form.
        if not F.mutating and state_key(D, node.obj) != node.key:
            res = (":self-mutated", f"a non-mutating operation changed the matrix it was called on "
                                    f"({_diff(D, node.obj, build(D, ref))})")
            node.obj = build(D, ref)
            if state_key(D, node.obj) != node.key:
                ctx.violation(F.sig(res[0]), f"[{D.name}.{F.meth}] " + res[1], case)
                ctx.count("pruned-successors")
                return None
        if operand is not None and state_key(D, operand) != okey:
            res = (":operand-mutated", "the operand matrix was modified by the operation")
            operand = None
        is_root = F.mutating not in root_fail
        if res is None:
            if is_root:
                root_fail[F.mutating] = (None, None)
            seen_keys.add(box["kf"])
            passed.append((F, box["out"], box["kf"],
                           state_key(D, box["out"], skip_meta_of=kind) if any_free else box["kf"]))
        else:
            all_ok = False
            fkind, detail = res
            sig = F.sig(fkind)
            if D.scaled and not F.base.startswith(D.name + ".") and fkind in (":data", ":shape"):
                # a scaled class inherited a structural method that knows nothing about location / scale
                if kind == "taxa":
                    # value-level consequences of location/scale handling along the taxa axis are property C15's
                    # (DESIGN section 3, C03 "State"): recorded there, only counted here; the form is not used as successor
                    ctx.count(f"deferred-to-C15:{D.name}.{F.meth}{fkind}")
                    if is_root:
                        root_fail[F.mutating] = (fkind, None)
                    continue
                sig = f"{D.name}:inherited-{kind}-axis-method{fkind}"
            if is_root:
                root_fail[F.mutating] = (fkind, sig)
            elif root_fail[F.mutating][0] == fkind and not fkind.startswith("@"):
                sig = root_fail[F.mutating][1]       # the dispatching form fails exactly as the form it dispatches to
            ctx.violation(sig, f"[{D.name}.{F.meth}] " + detail, case)
    ctx.count(f"op:{D.name}:{opname(op)}")
    if op.get("operand"):
        ctx.flag(f"operand-{op['operand']}:{D.name}:{kind}")
    if not passed:
        ctx.count("pruned-successors")
        ctx.count(f"viol:{D.name}:{opname(op)}")
        return None
    # (c) + (d): all forms agree, modulo target-axis group metadata where the property leaves it free
    P = passed[0]
    cd_ok = True
    for F, out, kf, ks in passed[1:]:
        same = (ks == P[3]) if (F.free or P[0].free) else (kf == P[2])
        if not same:
            all_ok = cd_ok = False
            ctx.violation(F.base + ":differs-from:" + P[0].meth,
                          f"[{D.name}] {F.meth} and {P[0].meth} both satisfy the reference but leave different object "
                          f"states ({_diff(D, out, P[1])})", case)
    # successor: first strict (non-free) form that passed, else first passed
    S = next((p for p in passed if not p[0].free), P)
    succ_ref = ref2.copy()
    for k in D.gkinds:
        if succ_ref.grouped[k] == FREE:
            succ_ref.grouped[k] = bool(getattr(S[1], "is_grouped" + R.SUFFIX[k])())
    succ = Node(S[1], succ_ref, S[2], node.init)
    # (f) live in-place history == functional chain.  Meaningful only while every step so far could be performed in
    # place by its live form (otherwise the replay would merely repeat a violation that is already recorded).
    LF = next(f for f in forms if f.meth.startswith(LIVE_FORM[op["op"]]))
    lf_ok = any(p[0] is LF for p in passed) and cd_ok
    if lf_ok and node.live_ok and do_live and len(history) >= 1:   # (empty history: (f) == the mutating form)
        def live():
            r = initial_ref(D, node.init)
            o = build(D, r)
            F = None
            for h in list(history) + [op]:
                o, F = live_apply(D, o, h, r)
                r = r.apply(h)
                for k in D.gkinds:
                    if r.grouped[k] == FREE:
                        r.grouped[k] = bool(getattr(o, "is_grouped" + R.SUFFIX[k])())
            ctx.transitions += len(history) + 1
            free = F.free or S[0].free
            k_live = state_key(D, o, skip_meta_of=(kind if free else None))
            k_fun = S[3] if free else S[2]
            require(k_live == k_fun, ":live-history-differs",
                    lambda: f"replaying the whole history in place on one object gives a different state than the "
                            f"copy-based chain ({_diff(D, o, S[1])})")
        res = run_guarded(LF, live)
        ctx.count("live-history-replays")
        if res is not None:
            all_ok = False
            ctx.violation(LF.base + ":live" + res[0].lstrip("@"), f"[{D.name}] " + res[1], case)
    elif do_live and len(history) >= 1:
        ctx.count("live-history-replays-skipped-after-violation")
    succ.live_ok = node.live_ok and lf_ok
    if all_ok:
        ctx.traces += 1          # a complete reference behaviour (history + this op) replayed on the implementation
    else:
        ctx.count("transitions-with-violation")
        ctx.count(f"viol:{D.name}:{opname(op)}")
    return succ


def _ref_for_form(ref2, ref, kind, F, op):
    """Expected state for one form: strict forms of a sort must leave the axis ungrouped; free forms (reorder,
    lexsort+reorder) may keep metadata if it is still a true partition."""
    if kind not in R.GROUP_FIELD:
        return ref2
    want = ref2.grouped[kind]
    if F.free:
        was = ref.grouped.get(kind, False)
        want = FREE if was in (True, FREE) else False
    if want == ref2.grouped[kind]:
        return ref2
    r = ref2.copy()
    r.grouped[kind] = want
    return r


def _diff(D, a, b):
    out = []
    for f in ("mat",) + D.fields + D.metas:
        x, y = getattr(a, f), getattr(b, f)
        kx = None if x is None else (x.dtype.str, x.shape, x.tolist())
        ky = None if y is None else (y.dtype.str, y.shape, y.tolist())
        if repr(kx) != repr(ky):
            out.append(f"{f}: {kx} vs {ky}")
    return "; ".join(out)[:800] or "fields equal; type/ploidy differ"


# ------------------------------------------------------------------------------------------------------------------
# oracle (g): no aliasing between a result and the objects it was derived from
def _shares(D, a, b):
    """Some array of `a` may share memory with the same-named array of `b`."""
    for f in ("mat",) + D.fields + D.metas:
        x, y = getattr(a, f, None), getattr(b, f, None)
        if isinstance(x, numpy.ndarray) and isinstance(y, numpy.ndarray) and numpy.may_share_memory(x, y):
            return True
    return False


def alias_mutators(D, ref_t, reduced=False):
    """Axis-specific MUTATING operations that are valid on an object in reference state ref_t: [(method, fn)]."""
    out = []
    for k in D.kinds:
        ops = OPS_BY_KIND[k]
        if not ops:
            continue
        sfx = R.SUFFIX[k]
        n = ref_t.n(k)
        if "reorder" in ops:
            perm = numpy.arange(n, dtype="int64")[::-1].copy()
            out.append(("reorder" + sfx, lambda t, m="reorder" + sfx, perm=perm: getattr(t, m)(perm)))
            if ref_t.default_keys(k):
                m = ("group" if "group" in ops else "sort") + sfx
                out.append((m, lambda t, m=m: getattr(t, m)()))
        if reduced:
            continue
        if n > 1:
            out.append(("remove" + sfx, lambda t, m="remove" + sfx: getattr(t, m)(0)))
        opd = build(D, operand_ref(ref_t, k, "A"), operand=True)
        out.append(("incorp" + sfx, lambda t, m="incorp" + sfx, opd=opd: getattr(t, m)([0], opd)))
    return out


def alias_check(ctx, D, node, history):
    """For the object returned by each kind of non-mutating operation (and by copy / deepcopy): apply every mutating
    operation to the RESULT and require the source and the operand to stay bit-identical; then mutate the SOURCE
    and require the earlier result to stay bit-identical.  Only run where result and source share array memory."""
    import copy as _copy
    ref = node.ref
    cands = []      # (description, op dict or None, F0 callable(t, o), operand spec, reference state of the result)
    for k in D.kinds:
        if not OPS_BY_KIND[k]:
            continue
        n = ref.n(k)
        for op in ({"kind": k, "op": "select", "arg": list(range(n - 1, -1, -1))},
                   {"kind": k, "op": "delete", "arg": 0},
                   {"kind": k, "op": "adjoin", "operand": "A"},
                   {"kind": k, "op": "insert", "arg": [0], "operand": "A"},
                   {"kind": k, "op": "concat", "operand": "A", "first": "self"}):
            try:
                r2 = ref.apply(op)
            except (ValueError, IndexError):
                continue
            cands.append((op, make_forms(D, op, ref)[0], r2))
    pseudo = [("copy", lambda t, o: t.copy()), ("copy.copy", lambda t, o: _copy.copy(t)),
              ("deepcopy", lambda t, o: t.deepcopy()), ("copy.deepcopy", lambda t, o: _copy.deepcopy(t))]
    for name, fn in pseudo:
        cands.append(({"kind": None, "op": name}, Form(name, D.sig("__copy__" if "deep" not in name else "__deepcopy__"),
                                                       "", False, fn), ref))
    for op, F0, r_out in cands:
        case = {"cls": D.name, "init": node.init, "history": list(history), "op": dict(op, alias=True), "seed": D.seed}
        kind = op["kind"]
        operand = build(D, operand_ref(ref, kind, op["operand"]), operand=True) if op.get("operand") else None
        okey = state_key(D, operand) if operand is not None else None
        try:
            out = F0.fn(node.obj, operand)
        except Exception:
            continue                      # a failing form is the business of the main transition oracle
        if not (_shares(D, out, node.obj) or (operand is not None and _shares(D, out, operand))):
            ctx.count("alias:no-shared-memory")
            continue
        ctx.count("alias:shared-memory")
        ctx.flag(f"alias:{D.name}")
        # direction 1: mutate the result, the source / operand must not change
        for mname, mfn in alias_mutators(D, r_out):
            try:
                o = F0.fn(node.obj, operand)
                mfn(o)
            except Exception:
                continue
            ctx.transitions += 2
            ctx.evaluations += 1
            bad_src = state_key(D, node.obj) != node.key
            bad_opd = operand is not None and state_key(D, operand) != okey
            if bad_src or bad_opd:
                ctx.violation(D.sig(mname) + ":modifies-shared-arrays-in-place",
                              f"[{D.name}] {mname}() applied to the matrix returned by {F0.meth}() changed the "
                              f"{'source matrix' if bad_src else 'operand'} it was derived from "
                              f"({_diff(D, node.obj, build(D, ref)) if bad_src else 'operand'}): the two objects share "
                              f"label arrays and the mutating method writes into them in place", case)
                if bad_src:
                    node.obj = build(D, ref)
                if bad_opd:
                    operand = build(D, operand_ref(ref, kind, op["operand"]), operand=True)
            else:
                ctx.traces += 1
        # direction 2: mutate the source, the earlier result must not change
        for mname, mfn in alias_mutators(D, ref, reduced=True):
            try:
                src = clone(D, node.obj)
                o = F0.fn(src, operand)
                ko = state_key(D, o)
                mfn(src)
            except Exception:
                continue
            ctx.transitions += 2
            ctx.evaluations += 1
            if state_key(D, o) != ko:
                ctx.violation(D.sig(mname) + ":modifies-shared-arrays-in-place",
                              f"[{D.name}] {mname}() applied to a matrix changed the matrix that {F0.meth}() had returned "
                              f"from it earlier: the two objects share label arrays and the mutating method writes "
                              f"into them in place", case)
            else:
                ctx.traces += 1


# ------------------------------------------------------------------------------------------------------------------
# argument forms of the operand-taking operations: matrix object / raw ndarray x every subset of label overrides
def _subsets(fields):
    fs = list(fields)
    out = [(f,) for f in fs]
    if len(fs) > 1:
        out.append(tuple(fs))
    if len(fs) > 2:
        out.append(tuple(fs[:2]))
    return out


NONE_FILL = ("taxa", "vrnt_name")     # documented: filled with None when the operand supplies no such labels


def argform_check(ctx, D, node, history):
    """Documented call forms `op(values, <label keywords>)`: an explicit keyword always wins over the operand's own
    label array; without it the operand's own labels are used; a raw ndarray operand needs every label array the
    matrix has (names may be omitted and are then None).  Terminal checks (no successor states)."""
    ref = node.ref
    for kind in D.kinds:
        if not OPS_BY_KIND[kind]:
            continue
        present = [f for f in R.KIND_FIELDS[kind] if ref.present.get(f, False)]
        if not present:
            continue
        sfx = R.SUFFIX[kind]
        axes = D.axes_of(kind)
        gen_axes = [axes[0], axes[-1] - D.ndim]
        for opname, which, arg in (("adjoin", "A", None), ("insert", "B", [0])):
            variants = [("matrix", S, ()) for S in _subsets(present)]
            if not D.scaled:
                variants.append(("ndarray", tuple(present), ()))
                miss = tuple(f for f in present if f in NONE_FILL)
                if miss:
                    variants.append(("ndarray", tuple(f for f in present if f not in miss), miss))
            for vform, S, miss in variants:
                op = {"kind": kind, "op": opname, "operand": which, "override": list(S)}
                if arg is not None:
                    op["arg"] = arg
                if miss:
                    op["missing"] = list(miss)
                try:
                    ref2 = ref.apply(op)
                except (ValueError, IndexError):
                    continue
                case = {"cls": D.name, "init": node.init, "history": list(history), "seed": D.seed,
                        "op": dict(op, argform=vform)}
                O = ref2.axes[kind][: len(R.POOL[kind][which])] if False else None
                new_ents = [e for e in ref2.axes[kind] if e[2]]
                kw_proto = {f: label_array(f, [dict(e[2])[f] for e in new_ents]) for f in S}
                mut = {"adjoin": "append", "insert": "incorp"}[opname]
                calls = []
                for base, mutating in ((opname, False), (mut, True)):
                    pre = (arg,) if arg is not None else ()
                    calls.append((base + sfx, mutating, lambda t, v, kw, m=base + sfx, pre=pre: getattr(t, m)(*pre, v, **kw)))
                    for a in gen_axes:
                        calls.append((base, mutating, lambda t, v, kw, m=base, pre=pre, a=a: getattr(t, m)(*pre, v, axis=a, **kw)))
                root = {}
                for meth, mutating, call in calls:
                    if not hasattr(D.cls, meth):
                        continue
                    F = Form(meth, D.sig(meth), "", mutating, None)
                    operand = build(D, operand_ref(ref, kind, which), operand=True)
                    okey = state_key(D, operand)
                    kw = {f: v.copy() for f, v in kw_proto.items()}
                    if vform == "ndarray":
                        values = operand.mat
                        for f in present:
                            if f not in kw and f not in miss:
                                kw[f] = getattr(operand, f)
                    else:
                        values = operand
                    target = clone(D, node.obj) if mutating else node.obj

                    def run(call=call, target=target, values=values, kw=kw, mutating=mutating):
                        r = call(target, values, kw)
                        out = target if mutating else r
                        check_ref(D, out, ref2, "", opkind=kind)

                    res = run_guarded(F, run)
                    ctx.transitions += 1
                    ctx.evaluations += 1
                    ctx.count(f"argform:{D.name}:{meth}:{vform}")
                    if res is None and (state_key(D, operand) != okey or (not mutating and state_key(D, node.obj) != node.key)):
                        res = (":operand-or-self-mutated", "the call changed its operand or (non-mutating form) the matrix itself")
                        if state_key(D, node.obj) != node.key:
                            node.obj = build(D, ref)
                    is_root = mutating not in root
                    if res is None:
                        ctx.traces += 1
                        if is_root:
                            root[mutating] = (None, None)
                        continue
                    fkind, detail = res
                    if D.scaled and not F.base.startswith(D.name + ".") and fkind in (":data", ":shape"):
                        if kind == "taxa":
                            ctx.count(f"deferred-to-C15:{D.name}.{meth}{fkind}")
                            if is_root:
                                root[mutating] = (fkind, None)
                            continue
                        sig = f"{D.name}:inherited-{kind}-axis-method{fkind}"
                    elif fkind.startswith("@"):
                        sig = fkind[1:]
                    elif fkind.startswith(":labels:") or fkind.startswith(":label-"):
                        sig = F.base + ":keyword-override" + fkind
                    else:
                        sig = F.base + fkind
                    if is_root:
                        root[mutating] = (fkind, sig)
                    elif root[mutating][0] == fkind and root[mutating][1]:
                        sig = root[mutating][1]          # the generic form fails exactly as the axis-specific one
                    ctx.violation(sig, f"[{D.name}.{meth}(values=<{vform}>, overriding {list(S)}"
                                       f"{', omitting ' + str(list(miss)) if miss else ''})] " + detail, case)


# ------------------------------------------------------------------------------------------------------------------
# index-type forms: the same logical index as python int / numpy integer scalars / list / tuple / int64 / int32 array
_SCALAR_TYPES = ("int", "numpy.int64", "numpy.int32", "numpy.intp")


def _int_types(i):
    return [("int", i), ("numpy.int64", numpy.int64(i)), ("numpy.int32", numpy.int32(i)), ("numpy.intp", numpy.intp(i))]


def _seq_types(L):
    return [("list", list(L)), ("tuple", tuple(L)), ("int64-array", numpy.array(L, dtype="int64")),
            ("int32-array", numpy.array(L, dtype="int32"))]


def indextype_check(ctx, D, node, history):
    """Every documented way of writing the same index must give the reference result: positions of insert/incorp and
    delete/remove as python int or numpy integer scalar ("int"), as list / tuple / integer ndarray ("Sequence of
    ints"); select indices as list / tuple / ndarray ("array_like"); reorder indices as list / ndarray.  The
    operands are provenance coded (a 2 x 2 block is not symmetric), so a transposed insertion is visible.
    Terminal checks (the successor states are those of the ordinary alphabet)."""
    ref = node.ref
    for kind in D.kinds:
        ops = OPS_BY_KIND[kind]
        if not ops:
            continue
        sfx = R.SUFFIX[kind]
        n = ref.n(kind)
        gax = D.axes_of(kind)[-1] - D.ndim
        jobs = []        # (abstract op, type name, [(method, mutating, call(t, operand))])
        rev = list(range(n - 1, -1, -1))
        for tn, v in _seq_types(rev):
            jobs.append(({"kind": kind, "op": "select", "arg": rev}, tn,
                         [("select" + sfx, False, lambda t, o, v=v: getattr(t, "select" + sfx)(v)),
                          ("select", False, lambda t, o, v=v: t.select(v, axis=gax))]))
            if "reorder" in ops and tn != "tuple":
                jobs.append(({"kind": kind, "op": "reorder", "arg": rev}, tn,
                             [("reorder" + sfx, True, lambda t, o, v=v: getattr(t, "reorder" + sfx)(v)),
                              ("reorder", True, lambda t, o, v=v: t.reorder(v, axis=gax))]))
        if n > 1:
            for i in (0, n - 1):
                for tn, v in _int_types(i) + (_seq_types([i]) if i else []):
                    jobs.append(({"kind": kind, "op": "delete", "arg": i if tn in _SCALAR_TYPES else [i]}, tn,
                                 [("delete" + sfx, False, lambda t, o, v=v: getattr(t, "delete" + sfx)(v)),
                                  ("delete", False, lambda t, o, v=v: t.delete(v, axis=gax)),
                                  ("remove" + sfx, True, lambda t, o, v=v: getattr(t, "remove" + sfx)(v)),
                                  ("remove", True, lambda t, o, v=v: t.remove(v, axis=gax))]))
        for which, p in (("B", 0), ("A", n)):
            for tn, v in _int_types(p) + _seq_types([p]):
                scalar = tn in _SCALAR_TYPES
                jobs.append(({"kind": kind, "op": "insert", "arg": p if scalar else [p], "operand": which}, tn,
                             [("insert" + sfx, False, lambda t, o, v=v: getattr(t, "insert" + sfx)(v, o)),
                              ("insert", False, lambda t, o, v=v: t.insert(v, o, axis=gax)),
                              ("incorp" + sfx, True, lambda t, o, v=v: getattr(t, "incorp" + sfx)(v, o)),
                              ("incorp", True, lambda t, o, v=v: t.incorp(v, o, axis=gax))]))
        base_fail = {}       # (logical op, method) -> failure kind of the ordinary index type (int / list)
        for op, tn, calls in jobs:
            try:
                ref2 = ref.apply(op)
            except (ValueError, IndexError):
                continue
            case = {"cls": D.name, "init": node.init, "history": list(history), "seed": D.seed,
                    "op": dict(op, indextype=tn)}
            root = {}
            for meth, mutating, call in calls:
                if not hasattr(D.cls, meth):
                    continue
                F = Form(meth, D.sig(meth), "", mutating, None)
                operand = build(D, operand_ref(ref, kind, op["operand"]), operand=True) if op.get("operand") else None
                target = clone(D, node.obj) if mutating else node.obj

                def run(call=call, target=target, operand=operand, mutating=mutating):
                    r = call(target, operand)
                    check_ref(D, target if mutating else r, _ref_for_form(ref2, ref, kind, Form("", "", "", mutating, None, free=(op["op"] == "reorder")), op),
                              "", opkind=kind)

                res = run_guarded(F, run)
                ctx.transitions += 1
                ctx.evaluations += 1
                ctx.count(f"indextype:{tn}")
                if not mutating and state_key(D, node.obj) != node.key:
                    res = res or (":self-mutated", "a non-mutating operation changed the matrix it was called on")
                    node.obj = build(D, ref)
                is_root = mutating not in root
                bkey = (repr(sorted(op.items())), meth)
                if tn in ("int", "list"):
                    base_fail[bkey] = None if res is None else res[0]
                if res is None:
                    ctx.traces += 1
                    if is_root:
                        root[mutating] = (None, None)
                    continue
                fkind, detail = res
                if D.scaled and not F.base.startswith(D.name + ".") and fkind in (":data", ":shape"):
                    if kind == "taxa":
                        ctx.count(f"deferred-to-C15:{D.name}.{meth}{fkind}")
                        if is_root:
                            root[mutating] = (fkind, None)
                        continue
                    sig = f"{D.name}:inherited-{kind}-axis-method{fkind}"
                elif fkind.startswith("@"):
                    sig = fkind[1:]
                elif tn in ("int", "list") or base_fail.get(bkey) == fkind:
                    sig = F.base + fkind      # fails for the ordinary index type too: not an index-type matter
                else:                                           # the index type is the failing input class
                    sig = F.base + ":index-type=" + ("numpy-integer-scalar" if tn in _SCALAR_TYPES else
                                                    "integer-ndarray" if tn.endswith("array") else tn)
                if is_root:
                    root[mutating] = (fkind, sig)
                elif root[mutating][0] == fkind and root[mutating][1]:
                    sig = root[mutating][1]
                ctx.violation(sig, f"[{D.name}.{meth}(index given as {tn})] " + detail, case)


# ------------------------------------------------------------------------------------------------------------------
# genotyping protocols as terminal single operations
GT_PROTOS = (("DenseMaskedPhasedGenotyping", False), ("DenseMaskedPhasedGenotyping", True),
             ("DenseMaskedUnphasedGenotyping", False), ("DenseMaskedUnphasedGenotyping", True),
             ("DenseUnphasedGenotyping", None))


def genotyping(ctx, D, node, history):
    ref = node.ref
    for pname, invert in GT_PROTOS:
        pcls = getattr(importlib.import_module(f"pybrops.breed.prot.gt.{pname}"), pname)
        mask = ref.labels("vrnt_mask", "vrnt")
        keep = list(range(ref.n("vrnt")))
        if invert is not None and mask is not None:
            keep = [i for i, m in enumerate(mask) if bool(m) != bool(invert)]
        if not keep:
            ctx.count("genotyping-skipped-empty-result")
            continue
        if len(keep) < ref.n("vrnt"):
            ctx.count("genotyping-masked-some")
        case = {"cls": D.name, "init": node.init, "history": list(history), "seed": D.seed,
                "op": {"kind": "vrnt", "op": "genotype", "proto": pname, "invert": invert}}
        # a masked protocol applied to a matrix that has no vrnt_mask is its own input class (and root cause)
        sig = f"{pname}.genotype" + (":without-vrnt_mask" if (mask is None and invert is not None) else "")

        def run():
            prot = pcls() if invert is None else pcls(invert=invert)
            out = prot.genotype(node.obj)
            require(state_key(D, node.obj) == node.key, sig + ":input-mutated", "genotype() changed its input matrix")
            phased = pname == "DenseMaskedPhasedGenotyping"
            D2 = D if phased else Desc.get("DenseGenotypeMatrix", D.seed)
            r2 = ref.copy()
            r2.axes["vrnt"] = R.l_select(ref.axes["vrnt"], keep)
            for k in D.gkinds:
                r2.grouped[k] = FREE if ref.grouped[k] else False
            if phased:
                check_ref(D, out, r2, sig, is_grouped_generic=False, stale=":group-metadata-wrong")
            else:
                # unphased: cells are the int8 sum over the phase axis; labels as for the phased case
                r3 = R.Ref(D2.phys, {"taxa": r2.axes["taxa"], "vrnt": r2.axes["vrnt"]}, r2.present, r2.grouped,
                           seed=r2.seed, dup=r2.dup, maskbits=r2.maskbits)
                full = numpy.array(r2.cells(D.coder), dtype="int64").sum(axis=0)
                exp = ((full + 128) % 256 - 128).astype("int8")
                check_ref(D2, out, r3, sig, is_grouped_generic=False, exp_mat=exp, stale=":group-metadata-wrong")
            for k in D.gkinds:
                if ref.grouped[k]:
                    ctx.count(f"genotyping-{k}-grouped-in")
                    if getattr(out, "is_grouped" + R.SUFFIX[k])():
                        ctx.count(f"genotyping-{k}-grouped-out")
            ctx.outcome(state_key(D2, out))
        ctx.evaluations += 1
        ctx.transitions += 1
        ctx.count(f"op:{pname}:invert={invert}")
        if ctx.guard(run, case=case, sig_prefix=sig + ":"):
            ctx.traces += 1
            if len(history) == 0:
                # oracle (g) for the protocols: their output shares label arrays with the input; mutating the
                # output must leave the input bit-identical
                phased = pname == "DenseMaskedPhasedGenotyping"
                D2 = D if phased else Desc.get("DenseGenotypeMatrix", D.seed)
                r_out = R.Ref(D2.phys, {k: (R.l_select(ref.axes[k], keep) if k == "vrnt" else ref.axes[k])
                                        for k in D2.kinds}, ref.present, {k: False for k in D2.gkinds},
                              seed=ref.seed, dup=ref.dup, maskbits=ref.maskbits)
                for mname, mfn in alias_mutators(D2, r_out):
                    if mname.startswith("incorp"):
                        continue
                    try:
                        out = (pcls() if invert is None else pcls(invert=invert)).genotype(node.obj)
                        if not _shares(D, out, node.obj):
                            break
                        mfn(out)
                    except Exception:
                        continue
                    ctx.transitions += 2
                    ctx.evaluations += 1
                    if state_key(D, node.obj) != node.key:
                        ctx.violation(D2.sig(mname) + ":modifies-shared-arrays-in-place",
                                      f"[{D2.name}] {mname}() applied to the output of {pname}.genotype() changed the "
                                      f"phased input matrix ({_diff(D, node.obj, build(D, ref))})", dict(case, alias=mname))
                        node.obj = build(D, ref)
                    else:
                        ctx.traces += 1


# ------------------------------------------------------------------------------------------------------------------
def explore_shard(ctx, D, inits, depth, nmax, part=None, do_live=True, gt=False, sample=False):
    flagged = set()

    def initial():
        for init in inits:
            ref = initial_ref(D, init)
            obj = build(D, ref)
            key = state_key(D, obj)
            node = Node(obj, ref, key, init)
            # the freshly built object must itself satisfy the reference (harness self-check)
            check_ref(D, obj, ref, "harness:initial-state")
            yield ((), node)

    def on_state(h, node):
        ctx.state(node.key)
        if gt:
            genotyping(ctx, D, node, h)
        if depth >= 1 and len(h) == 0:
            argform_check(ctx, D, node, h)
            indextype_check(ctx, D, node, h)
        r = node.ref
        for k in D.kinds:
            if k != "other" and r.n(k) == 1:
                ctx.flag(f"single:{D.name}:{k}")
        for k in D.gkinds:
            ctx.flag(f"{'grouped' if r.grouped[k] else 'ungrouped'}:{D.name}:{k}")

    def successors(h, node):
        ops, cut = alphabet(D, node.ref, nmax)
        if cut:
            ctx.count("ops-cut-by-axis-length-bound", cut)
        if state_key(D, node.obj) != node.key:
            # this node's object was derived by a non-mutating operation and shares arrays with its parent / siblings;
            # an in-place write through one of THEM (reported there by oracle g) reached it: restore it
            ctx.count("node-restored-after-aliased-write")
            node.obj = build(D, node.ref)
        if len(h) <= 1 and (part is None or len(h) > 0 or part[0] == 0):
            alias_check(ctx, D, node, h)      # what shares memory depends on class and method, not on the history
        for i, op in enumerate(ops):
            if part is not None and len(h) == 0 and i % part[1] != part[0]:
                continue
            try:
                node.ref.apply(op)
            except (ValueError, IndexError):
                ctx.count("invalid-not-generated")
                continue
            succ = step(ctx, D, node, op, h, do_live=do_live)
            if succ is not None:
                ctx.outcome(succ.key)
                if succ.key != node.key:
                    ctx.nontriv(hashlib.blake2b(node.key + repr(sorted(op.items())).encode(), digest_size=8).digest())
                    ctx.count(f"changes:{D.name}:{opname(op)}")
                if sample and not ctx.samples and len(h) == depth - 1 and succ.key != node.key:
                    ctx.sample({"cls": D.name, "init": node.init, "history": list(h), "op": op,
                                "result_shape": list(succ.obj.mat.shape),
                                "result_labels": {f: (None if getattr(succ.obj, f) is None else getattr(succ.obj, f).tolist())
                                                  for f in D.fields[:3]},
                                "result_grouped": {k: bool(succ.ref.grouped[k]) for k in D.gkinds}})
            yield (op, succ)

    nst, ntr, maxd = bfs(initial(), successors, key=lambda n: n.key, max_depth=depth, on_state=on_state)
    ctx.count(f"bfs-states:{D.name}", nst)
    ctx.count(f"bfs-maxdepth{maxd}:{D.name}")


# ------------------------------------------------------------------------------------------------------------------
# tiers / shards
QUICK_PROFILES = ("full", "dup", "bare", "no_taxa", "no_taxa_grp", "no_vrnt_chrgrp", "no_vrnt_phypos", "no_vrnt_name",
                  "no_vrnt_mask", "no_vrnt_hapalt", "no_trait")


def _nlab(D):
    return len([k for k in D.kinds if OPS_BY_KIND[k]])


def _s(D, n):
    """Shape with n entities on every labelled axis (2 phases, 2 anonymous columns)."""
    return tuple(2 if k in ("other", "phase") else n for k in D.kinds)


def plan(tier):
    """List of shard specs (class, [initial states], depth, max axis length, first-op partition, live, genotyping).

    quick     deep: depth 2 from the 'full' profile, shape 2 x 2 (x 2), every grouped/ungrouped combination
              wide: depth 1 from every shape {1,2,3}^axes of the profiles QUICK_PROFILES
    thorough  deep: depth 3 from 'full', shape 2^axes, ungrouped and all-grouped (three-axis and square-taxa-trait
                    classes: ungrouped);
                    one-axis classes also shapes 1 and 3 and 'dup' 2^axes; the three base classes depth 4 from
                    'full' shapes 1 and 2
              wide: depth 2 from every shape of 'full', from shapes 1/2/3^axes of 'dup' and 'bare', and from shape
                    2^axes of every 'one optional array absent' profile (ungrouped and all-grouped; three-axis
                    classes ungrouped); depth 1 from every initial state (all profiles, shapes, groupings)
    """
    out = []
    T = tier == "thorough"
    nmax = 5 if T else 4
    for name in CLASSES:
        D = Desc.get(name, 0)
        nl = _nlab(D)
        gt = name == "DensePhasedGenotypeMatrix"
        allp = [p[0] for p in profiles(D)]
        nox = [p for p in allp if p.startswith("no_")]
        done = set()

        def emit(inits, depth, nparts=1, chunk=1):
            inits = [i for i in inits if (json_key(i), depth) not in done and not any(
                (json_key(i), d2) in done for d2 in range(depth + 1, 6))]
            for i in inits:
                done.add((json_key(i), depth))
            if nparts > 1:
                for i in inits:
                    for j in range(nparts):
                        out.append((name, [i], depth, nmax, (j, nparts), True, gt))
            else:
                for k in range(0, len(inits), chunk):
                    out.append((name, inits[k:k + chunk], depth, nmax, None, True, gt))

        if T:
            ends = "ends"
            if name in BASE3:
                emit(initial_states(D, ["full"], {_s(D, 1), _s(D, 2)}), 4, nparts=2)
                emit(initial_states(D, ["dup"], {_s(D, 1), _s(D, 2)}), 3)
                emit(initial_states(D, ["full"], {_s(D, 3)}), 3, nparts=2)
            elif nl == 1:
                emit(initial_states(D, ["full"], {_s(D, 1), _s(D, 2), _s(D, 3)}), 3, nparts=2)
                emit(initial_states(D, ["dup"], {_s(D, 2)}), 3, nparts=2)
            elif nl == 2:
                emit([i for i in initial_states(D, ["full"], {_s(D, 2)}, gmode=ends)
                      if not (i["grouped"] and "taxa" in D.square_kinds and "trait" in D.kinds)], 3, nparts=4)
            else:
                emit([i for i in initial_states(D, ["full"], {_s(D, 2)}) if not i["grouped"]], 3, nparts=10)
            wide2 = initial_states(D, ["full"], gmode=ends) + initial_states(D, ["dup", "bare"], {_s(D, 1), _s(D, 2), _s(D, 3)}, gmode=ends)
            emit(wide2, 2, chunk={1: 6, 2: 2, 3: 1}[nl])
            emit([i for i in initial_states(D, nox, {_s(D, 2)}, gmode=ends) if nl < 3 or not i["grouped"]], 2,
                 chunk={1: 6, 2: 2, 3: 1}[nl])
            emit(initial_states(D, allp), 1, chunk={1: 40, 2: 24, 3: 12}[nl])
        else:
            emit(initial_states(D, ["full"], {_s(D, 2)}), 2, nparts={1: 1, 2: 3, 3: 4}[nl])
            emit(initial_states(D, [p for p in allp if p in QUICK_PROFILES]), 1, chunk={1: 40, 2: 16, 3: 10}[nl])
    # dedicated genotyping enumeration: every variant mask over m <= 5 (6) variants, grouped and ungrouped, with
    # and without the optional arrays the protocols touch; depth 0 = the protocols are applied to each state
    name = "DensePhasedGenotypeMatrix"
    for m in range(1, (6 if T else 5) + 1):
        inits = []
        for pname in ("full", "dup", "no_vrnt_mask", "no_vrnt_chrgrp", "no_taxa_grp", "no_vrnt_name"):
            for g in ([], ["vrnt"], ["taxa", "vrnt"]):
                if ("vrnt" in g and pname == "no_vrnt_chrgrp") or ("taxa" in g and pname == "no_taxa_grp"):
                    continue
                for bits in (range(1 << m) if pname != "no_vrnt_mask" else (0,)):
                    for nph in ((2, 1) if T else (2,)):
                        inits.append({"shape": [nph, 2, m], "profile": pname, "grouped": list(g), "maskbits": bits})
        step_ = 160
        for i in range(0, len(inits), step_):
            out.append((name, inits[i:i + step_], 0, nmax, None, False, True))
    return out


def json_key(i):
    return repr(sorted(i.items()))


def _only():
    """Debug facility: VERIF_C03_ONLY=ClassA,ClassB restricts a run to the shards (and vacuity guards) of those
    classes.  Unset in every registered command; used to localise a violation quickly."""
    import os
    v = os.environ.get("VERIF_C03_ONLY", "").strip()
    return [x for x in v.split(",") if x] or None


def shards(tier, seed):
    only = _only()
    return [s for s in plan(tier) if only is None or s[0] in only]


SAMPLE_CLASSES = ("DenseGenotypeMatrix", "DensePhasedGenotypeMatrix", "DenseBreedingValueMatrix",
                  "DenseMolecularCoancestryMatrix", "DenseTwoWayDHAdditiveGeneticVarianceMatrix", "DenseTaxaMatrix")


def run_shard(spec, ctx):
    name, inits, depth, nmax, part, live, gt = spec
    D = Desc.get(name, ctx.seed)
    ctx.bounds.update({"max_axis_length": nmax, f"explored-to-depth-{depth}:{name}": True,
                       "operand_pool": "A (1 new entity, ungrouped), B (2 new entities, grouped)",
                       "index_arguments": "all lists/permutations/slices for axis length <= 3, covering family above",
                       "plan": " ".join(plan.__doc__.split())})
    # one recorded sample per class in SAMPLE_CLASSES: the first state-changing transition at full depth of the
    # deepest all-grouped shard
    deepest = max(s[2] for s in plan(ctx.tier) if s[0] == name)
    sample = (name in SAMPLE_CLASSES and depth == deepest and (part is None or part[0] == 0)
              and len(inits) >= 1 and inits[0]["profile"] == "full" and sorted(inits[0]["grouped"]) == sorted(D.gkinds)
              and inits[0]["shape"] == list(_s(D, 2)))
    explore_shard(ctx, D, inits, depth, nmax, part=tuple(part) if part else None, do_live=live, gt=gt, sample=sample)
    for i in inits:
        ctx.flag(f"profile:{name}:{i['profile']}")


def expected_methods(D):
    """Every public structural method the class offers for its labelled axes (each must have been executed)."""
    out = set()
    for k in D.kinds:
        ops = OPS_BY_KIND[k]
        if not ops:
            continue
        sfx = R.SUFFIX[k]
        base = ["select", "delete", "remove", "insert", "incorp", "adjoin", "append", "concat"]
        if "reorder" in ops:
            base += ["reorder", "sort"]
        if "group" in ops:
            base += ["group", "ungroup"]
        for m in base:
            out.add(m)
            out.add(m + sfx)
        if "reorder" in ops:
            out.add("lexsort" + sfx + "+reorder" + sfx)
            out.add("lexsort+reorder" + sfx)
    return {m for m in out if hasattr(D.cls, m.split("+")[0])}


def finalize(ctx, tier, seed):
    """Vacuity guards: the exploration must have exercised what it claims to cover."""
    c = ctx.counters
    only = _only()
    for name in CLASSES:
        if only is not None and name not in only:
            continue
        D = Desc.get(name, seed)
        assert c.get(f"bfs-states:{name}", 0) > 10, name
        for m in sorted(expected_methods(D)):
            assert c.get(f"form:{name}:{m}", 0) > 0, ("public form never executed", name, m)
        for k in D.kinds:
            for o in OPS_BY_KIND[k]:
                assert c.get(f"op:{name}:{k}:{o}", 0) > 0, (name, k, o)
                # ... in a state where it changes something (or every application is a recorded violation)
                assert c.get(f"changes:{name}:{k}:{o}", 0) > 0 or c.get(f"viol:{name}:{k}:{o}", 0) > 0, \
                    ("operation never changed a state", name, k, o)
            if OPS_BY_KIND[k]:
                assert f"single:{name}:{k}" in ctx.flags, ("no single row/column", name, k)
                assert f"operand-A:{name}:{k}" in ctx.flags and f"operand-B:{name}:{k}" in ctx.flags, (name, k)
        for k in D.gkinds:
            assert f"grouped:{name}:{k}" in ctx.flags and f"ungrouped:{name}:{k}" in ctx.flags, (name, k)
        assert f"profile:{name}:full" in ctx.flags, name
        if len([k for k in D.kinds if k != "other"]) > 1 and "taxa" not in D.square_kinds:
            # copy-on-manipulation results of multi-axis classes share the untouched axis' label arrays with their
            # source: the aliasing oracle (g) must have met that situation
            assert f"alias:{name}" in ctx.flags, ("aliasing oracle never saw shared memory", name)
        if D.fields:
            assert any(k.startswith(f"argform:{name}:") and k.endswith(":matrix") for k in c), ("no keyword-override form", name)
    for tn in ("int", "numpy.int64", "numpy.int32", "numpy.intp", "list", "tuple", "int64-array", "int32-array"):
        assert c.get(f"indextype:{tn}", 0) > 0, ("index type never exercised", tn)
        if D.fields:       # duplicated labels; an absent optional label array; no label arrays at all
            assert f"profile:{name}:dup" in ctx.flags, name
            assert any(f.startswith(f"profile:{name}:no_") for f in ctx.flags), name
            assert len(D.fields) == 1 or f"profile:{name}:bare" in ctx.flags, name
    if only is None or "DensePhasedGenotypeMatrix" in only:
        for pname, inv in GT_PROTOS:
            assert c.get(f"op:{pname}:invert={inv}", 0) > 0, pname
        assert c.get("genotyping-vrnt-grouped-out", 0) > 0 and c.get("genotyping-masked-some", 0) > 0
    if only is not None:
        ctx.capped.append("VERIF_C03_ONLY restricts this run to " + ",".join(only))
    assert len(ctx.outcomes) > (1000 if only is None else 10), len(ctx.outcomes)
    assert ctx.traces > (1000 if only is None else 10), ctx.traces
    assert len(ctx.nontrivial) > (1000 if only is None else 10)


# ------------------------------------------------------------------------------------------------------------------
def replay(case, ctx):
    D = Desc.get(case["cls"], case.get("seed", 0))
    ref = initial_ref(D, case["init"])
    obj = build(D, ref)
    node = Node(obj, ref, state_key(D, obj), case["init"])
    hist = []
    scratch = type(ctx)(ctx.pid, ctx.tier, ctx.seed)
    for h in case["history"]:
        node = step(scratch, D, node, h, tuple(hist), do_live=False)
        if node is None:
            raise RuntimeError("history prefix is pruned on this tree")
        hist.append(h)
    op = case["op"]
    if op["op"] == "genotype":
        genotyping(ctx, D, node, tuple(hist))
    elif op.get("alias"):
        alias_check(ctx, D, node, tuple(hist))
    elif "argform" in op:
        argform_check(ctx, D, node, tuple(hist))
    elif "indextype" in op:
        indextype_check(ctx, D, node, tuple(hist))
    else:
        step(ctx, D, node, op, tuple(hist), do_live=True)
