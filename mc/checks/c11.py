"""C11 — genetic maps and map functions obey their defining laws.

Complete small-scope input enumeration on the real code:

  layer "fn"   a dense grid of distances / probabilities through the Haldane and Kosambi
               mapfn / invmapfn (range, end points, monotonicity, literature value, both
               round trips, shape preservation);
  layer "map"  every genetic map with <= 2 chromosomes, 2-3 markers each (plus 3 chromosomes x 2
               markers), positions from a 4-value alphabet, in EVERY row order, for
               StandardGeneticMap and ExtendedGeneticMap and three construction modes (default;
               auto_group=False + build_spline(); centiMorgan input).  Per row order: the whole
               state after construction = sorted row list + true chromosome partition + row
               attributes still attached, interpolation at chromosome ends and segment midpoints.
               Per map: interpolation kinds (own markers / between flanking markers / outside /
               absent chromosome, query-order independence), gdist1g/2g/1p/2p incl. index windows,
               rprob*, interp_gmap (+ the derived map obeys the own-marker law), remove()/select()
               of every single row followed by build_spline() (state and interpolation of the
               remaining rows), shrinking the chromosome SET (remove / select / interp_gmap onto
               fewer chromosomes, then build_spline(): the dropped chromosome must be reported
               missing), every public method documented as non-mutating (to_pandas in both units,
               to_csv, to_egmap, copy, interp_*, gdist*, rprob*, congruence, ...) leaves the full
               state and all answers bit-identical for both construction units and a second export
               equals the first, interp_xoprob on three matrix classes x both map functions; every
               call must leave its argument arrays and the map untouched.
               quick tier: second chromosome from a covering set; thorough tier: all pairs of
               chromosome configurations (3+3 markers: every first chromosome x every physical
               layout x 5 genetic patterns of the second).

  layer "pair" two-step histories of ONE matrix over two DIFFERENT maps with the same physical
               positions: all ordered pairs of distinct genetic patterns on every 1-chromosome
               layout (+ two-chromosome pairs); the matrix first receives map A's positions (given
               at construction / interp_genpos(A) / interp_xoprob(A, other function)), then
               interp_xoprob(B, fn) must leave exactly what a fresh matrix placed on B holds.
  Chromosome labels: every map spec uses one of two label schemes per seed variant — a
               non-consecutive one (e.g. 1,3,7 with the absent label 2 in between) or a
               consecutive one with the first configuration on the larger label (one scheme is
               0-based) — chosen structurally, so every seed covers both.

States = distinct (class, construction mode, map) configurations and (class, map A, map B) pairs; transitions = library
calls (constructors and methods); one execution = one (map, row order) or one (function,
grid point) or one law evaluation.
"""
from __future__ import annotations
import itertools, math
from fractions import Fraction
import numpy

from .. import compat  # noqa: F401
from ..core import Violation, require, digest, close
from ..ref import gmap as R

ID = "C11"
TECHNIQUE = ("complete small-scope input enumeration: distance/probability grid x 2 map functions; all small "
             "genetic maps x all row permutations x 2 map classes x query sets, against literature formulas "
             "(libm expm1/log1p/tanh/atanh) and a row-list map model with exact rational interpolation")
RULE = ("fn layer: one case per (map function, grid value, direction); map layer: one case per (class, construction "
        "mode, map, row permutation) — construct, compare the whole state with the sorted row list, interpolate at own "
        "markers and segment midpoints — plus per (class, map) one case per law family (interpolation kinds, query "
        "order, gdist1g/2g with every index window, gdist1p/2p, rprob*, interp_gmap, remove/select+build_spline, interp_xoprob on 3 matrix classes "
        "x 2 map functions x 3 marker sets); pair layer: one case per (class, ordered pair of distinct maps over the same "
        "physical positions, matrix class, first step in {constructed with positions, interp_genpos(A), interp_xoprob(A)}, map "
        "function) — result after interp_xoprob(B) must equal a fresh matrix on B; distinct = (class, mode, map); non-trivial = a map with at least one "
        "segment of non-zero slope (interpolation distinguishable from a constant) and, for permutations, an order "
        "that is not already sorted")
ASSUME = ["libm expm1/log1p/tanh/atanh are accurate to a few ulp (reference for the map functions)",
          "floating results are compared with rel 1e-9 / abs 1e-12 (framework convention); the d->r->d round trip "
          "additionally allows 16 roundings of r amplified by the inverse's condition number and is not demanded "
          "where that exceeds d/4 (saturation, counted)",
          "validity domain: >= 2 markers per chromosome, no duplicated physical position within a chromosome, "
          "non-negative integer physical positions; distance / crossover laws only for congruent maps "
          "(gdist* document jointly ascending inputs)",
          "values extrapolated outside a chromosome's span are only required to be present (not NaN) and "
          "order-preserving; the linear continuation is counted, not demanded",
          "mc/compat.py restores removed numpy names only"]

# value alphabets, rotated by VERIF_SEED (structure never depends on the seed)
PHYS = [[0, 10, 20, 35], [3, 4, 50, 1000], [1, 2, 3, 1000000]]
GEN = [[0.0, 0.1, 0.25, 0.6], [0.05, 0.3, 0.31, 1.2], [0.0, 0.5, 1.5, 3.0]]
# chromosome-label schemes (label A, label B, label C, absent label), two per seed variant; WHICH scheme a map
# uses is structural (the `swap` bit of its spec), so every seed exercises both kinds:
#   swap=False  non-consecutive labels, A < B < C, the absent label lies between / below / above them
#   swap=True   consecutive labels with A > B (the first configuration sits on the larger label), one scheme 0-based
LABELS = [[(1, 3, 7, 2), (2, 1, 3, 4)],
          [(2, 7, 9, 5), (8, 7, 9, 3)],
          [(4, 11, 20, 1), (1, 0, 2, 5)]]


def labels_of(spec, seed):
    return LABELS[seed % 3][1 if spec[2] else 0]
MULT = [1.5, 1.25, 1.75]
CLASSES = ("StandardGeneticMap", "ExtendedGeneticMap")
FNS = ("Haldane", "Kosambi")
GMATS = ("DenseGenotypeMatrix", "DensePhasedGenotypeMatrix", "DenseGeneticMappableMatrix")

COVER = {2: [((0, 1), (0, 1)), ((1, 3), (2, 2)), ((0, 3), (0, 3))],
         3: [((0, 1, 2), (0, 1, 3)), ((0, 2, 3), (1, 1, 2)), ((1, 2, 3), (0, 0, 0))]}


def _cls(name):
    import importlib
    mod = {"StandardGeneticMap": "pybrops.popgen.gmap.StandardGeneticMap",
           "ExtendedGeneticMap": "pybrops.popgen.gmap.ExtendedGeneticMap",
           "Haldane": "pybrops.popgen.gmap.HaldaneMapFunction",
           "Kosambi": "pybrops.popgen.gmap.KosambiMapFunction",
           "DenseGenotypeMatrix": "pybrops.popgen.gmat.DenseGenotypeMatrix",
           "DensePhasedGenotypeMatrix": "pybrops.popgen.gmat.DensePhasedGenotypeMatrix",
           "DenseGeneticMappableMatrix": "pybrops.popgen.gmap.DenseGeneticMappableMatrix"}[name]
    attr = name + "MapFunction" if name in FNS else name
    return getattr(importlib.import_module(mod), attr)


def chrom_configs(k, congruent=True):
    out = []
    for p in itertools.combinations(range(4), k):
        for g in itertools.product(range(4), repeat=k):
            nd = all(g[i] <= g[i + 1] for i in range(k - 1))
            if nd == congruent:
                out.append((p, g))
    return out


def map_rows(spec, seed):
    """spec = (cfgA, cfgB or None, swap[, cfgC]) -> canonical rows [(chr, phys, gen, tag)]"""
    cfgA, cfgB, swap = spec[:3]
    cfgC = spec[3] if len(spec) > 3 else None
    ph, ge = PHYS[seed % 3], GEN[seed % 3]
    la, lb, lc, _ = labels_of(spec, seed)
    rows = [(la, ph[p], ge[g]) for p, g in zip(*cfgA)]
    if cfgB is not None:
        rows += [(lb, ph[p], ge[g]) for p, g in zip(*cfgB)]
    if cfgC is not None:
        rows += [(lc, ph[p], ge[g]) for p, g in zip(*cfgC)]
    rows.sort(key=lambda r: (r[0], r[1]))
    return [(c, x, g, i) for i, (c, x, g) in enumerate(rows)]


def spec_markers(spec):
    return sum(len(c[0]) for c in (spec[0], spec[1]) + tuple(spec[3:]) if c)


# ----------------------------------------------------------------------------
# shards
def _map_groups(tier):
    """-> list of (mode, [map specs]) ; every group is run for both classes."""
    T = tier == "thorough"
    groups = []
    c2, c3 = chrom_configs(2), chrom_configs(3)
    n2, n3 = chrom_configs(2, False), chrom_configs(3, False)
    allc = {2: c2, 3: c3}
    one = [(a, None, s) for a in c2 + c3 + n2 + n3 for s in (False, True)]
    for mode in ("auto", "manual", "cM"):
        groups.append((mode, one))
    # second-chromosome set for the 3+3 maps of the thorough tier: every physical layout x 5 genetic patterns
    # (strictly increasing, tie at the start, tie at the end, constant, wide)
    g5 = [(0, 1, 2), (0, 0, 1), (1, 3, 3), (2, 2, 2), (0, 2, 3)]
    b20 = [(p, g) for p in itertools.combinations(range(4), 3) for g in g5]
    for ka, kb in ((2, 2), (2, 3), (3, 2), (3, 3)):
        if T:
            bset = allc[kb] if (ka, kb) != (3, 3) else b20
            groups.append(("auto", [(a, b, False) for a in allc[ka] for b in bset]))
            groups.append(("manual", [(a, b, s) for a in allc[ka] for b in COVER[kb][:1] for s in ((False, True) if ka + kb < 6 else (False,))]))
        else:
            nb = 2 if ka + kb == 4 else 1
            groups.append(("auto", [(a, b, s) for a in allc[ka] for b in COVER[kb][:nb] for s in ((False, True) if ka + kb < 6 else (False,))]))
            groups.append(("manual", [(a, b, s) for a in COVER[ka] for b in COVER[kb][:1] for s in (False, True)]))
    # three chromosomes with two markers each ("any number of chromosomes"): 6 rows, all 720 orders
    c3set = COVER[2] if T else COVER[2][:2]
    tri = [(a, b, s, c) for a in c3set for b in c3set for c in c3set for s in ((False, True) if T else (False,))]
    groups.append(("auto", tri))
    groups.append(("manual", tri[:2]))
    # non-congruent first chromosome next to one congruent chromosome
    for ka, nc in ((2, n2), (3, n3)):
        groups.append(("auto", [(a, COVER[2][0], s) for a in nc for s in ((False, True) if T else (False,))]))
    return groups


def shards(tier, seed):
    out = [("fn", f) for f in FNS]
    target = 40000 if tier == "thorough" else 8000      # permutations per shard
    for gi, (mode, specs) in enumerate(_map_groups(tier)):
        for cls in CLASSES:
            i = 0
            while i < len(specs):
                acc, j = 0, i
                while j < len(specs) and (acc == 0 or acc < target):
                    n = spec_markers(specs[j])
                    acc += math.factorial(n) + 40      # + law cost in permutation equivalents
                    j += 1
                out.append(("map", cls, mode, gi, i, j))
                i = j
    npairs = len(pair_specs(tier))
    step = 140
    for cls in CLASSES:
        for lo in range(0, npairs, step):
            out.append(("pair", cls, lo, min(npairs, lo + step)))
    return out


# ----------------------------------------------------------------------------
# fn layer
def dist_grid(seed):
    m2 = MULT[seed % 3]
    vals = {0.0, math.inf}
    for k in range(-50, 11):
        for m in (1.0, m2):
            v = m * 2.0 ** k
            vals.update((v, math.nextafter(v, math.inf), math.nextafter(v, 0.0)))
    return sorted(vals)


def prob_grid(seed):
    m2 = MULT[seed % 3]
    vals = {0.0, 0.5}
    for k in range(2, 51):
        for m in (1.0, m2):
            v = m * 2.0 ** -k
            vals.update((v, math.nextafter(v, math.inf), math.nextafter(v, 0.0)))
    for k in range(2, 54):
        v = 0.5 - 2.0 ** -k
        vals.update((v, math.nextafter(v, math.inf), math.nextafter(v, 0.0)))
    return sorted(v for v in vals if 0.0 <= v <= 0.5)


def run_fn(ctx, name, seed):
    fn = _cls(name)()
    P = f"{name}MapFunction"
    case = dict(layer="fn", fn=name, seed=seed)
    D = dist_grid(seed)
    Rg = prob_grid(seed)
    ctx.bounds.update({"fn_distance_grid": len(D), "fn_probability_grid": len(Rg)})
    d = numpy.array(D, dtype="float64")
    rg = numpy.array(Rg, dtype="float64")
    st = {}

    def forward():
        d0 = d.copy()
        r = fn.mapfn(d)
        ctx.transitions += 1
        st["r"] = r
        require(isinstance(r, numpy.ndarray) and r.shape == d.shape, P + ".mapfn:shape", f"shape {getattr(r, 'shape', None)} for input {d.shape}")
        require(numpy.array_equal(d, d0), P + ".mapfn:input-mutated", "mapfn changed its argument")
        require(not numpy.isnan(r).any(), P + ".mapfn:nan", f"NaN at d={d[numpy.isnan(r)][:3]}")
        require(float(r[0]) == 0.0, P + ".mapfn:zero", f"mapfn(0) = {r[0]!r}, expected 0")
        require(float(r[-1]) == 0.5, P + ".mapfn:infinity", f"mapfn(inf) = {r[-1]!r}, expected 0.5")
        bad = (r < -1e-12 * 0.5) | (r > 0.5 * (1 + 1e-12))
        require(not bad.any(), P + ".mapfn:range", lambda: f"outside [0, 1/2]: d={d[bad][:3]} -> r={r[bad][:3]}")
        dec = numpy.nonzero(r[1:] < r[:-1] - 1e-12 * 0.5)[0]
        require(dec.size == 0, P + ".mapfn:monotone", lambda: f"decreases between d={d[dec[0]]!r} and d={d[dec[0]+1]!r}: {r[dec[0]]!r} -> {r[dec[0]+1]!r}")
        ref = numpy.array([R.MAPFN[name](x) for x in D])
        ok = numpy.isclose(r, ref, rtol=1e-9, atol=1e-12)
        require(ok.all(), P + ".mapfn:value", lambda: f"d={d[~ok][:3]} -> {r[~ok][:3]}, literature formula gives {ref[~ok][:3]}")
        for x, y in zip(D, r.tolist()):
            ctx.evaluations += 1
            ctx.state(("fn", name, "d", x))
            ctx.outcome(("fn", name, y))
        if len(set(r.tolist())) > 10:
            ctx.flag(f"fn:{name}:mapfn-many-values")

    def shapes():
        r = st["r"]
        n2 = (len(D) // 2) * 2
        r2 = fn.mapfn(d[:n2].reshape(2, -1))
        ctx.transitions += 1
        require(r2.shape == (2, n2 // 2) and close(r2.ravel(), r[:n2]), P + ".mapfn:shape", "2-D argument is not mapped element-wise")
        for i in range(0, len(D), 7):
            y = fn.mapfn(d[i])
            ctx.transitions += 1
            require(numpy.shape(y) == () and close(float(y), float(r[i])), P + ".mapfn:shape", f"scalar argument d={D[i]!r} gives {y!r}, vector call gave {r[i]!r}")
        q2 = fn.invmapfn(rg[: (len(Rg) // 2) * 2].reshape(-1, 2))
        ctx.transitions += 1
        require(q2.shape == ((len(Rg) // 2), 2), P + ".invmapfn:shape", "2-D argument changes shape")
        ctx.flag(f"fn:{name}:shapes")

    def inverse():
        r0 = rg.copy()
        q = fn.invmapfn(rg)
        ctx.transitions += 1
        require(isinstance(q, numpy.ndarray) and q.shape == rg.shape, P + ".invmapfn:shape", "shape changed")
        require(numpy.array_equal(rg, r0), P + ".invmapfn:input-mutated", "invmapfn changed its argument")
        require(not numpy.isnan(q).any(), P + ".invmapfn:nan", lambda: f"NaN at r={rg[numpy.isnan(q)][:3]}")
        require(float(q[0]) == 0.0, P + ".invmapfn:zero", f"invmapfn(0) = {q[0]!r}")
        require(float(q[-1]) == math.inf, P + ".invmapfn:half", f"invmapfn(1/2) = {q[-1]!r}, expected inf")
        require(bool((q >= -1e-12).all()), P + ".invmapfn:range", lambda: f"negative distance at r={rg[q < -1e-12][:3]}")
        dec = numpy.nonzero(q[1:] < q[:-1] - 1e-12 * numpy.maximum(1.0, numpy.where(numpy.isfinite(q[:-1]), q[:-1], 1.0)))[0]
        require(dec.size == 0, P + ".invmapfn:monotone", lambda: f"decreases after r={rg[dec[0]]!r}")
        ref = numpy.array([R.INVFN[name](x) for x in Rg])
        ok = numpy.isclose(q, ref, rtol=1e-9, atol=1e-12)
        require(ok.all(), P + ".invmapfn:value", lambda: f"r={rg[~ok][:3]} -> {q[~ok][:3]}, literature formula gives {ref[~ok][:3]}")
        # r -> d -> r
        back = fn.mapfn(q)
        ctx.transitions += 1
        ok = numpy.isclose(back, rg, rtol=1e-9, atol=1e-12)
        require(ok.all(), P + ":roundtrip-r-d-r", lambda: f"mapfn(invmapfn(r)) != r at r={rg[~ok][:3]}: {back[~ok][:3]}")
        for x, y in zip(Rg, q.tolist()):
            ctx.evaluations += 1
            ctx.state(("fn", name, "r", x))
            ctx.outcome(("fn", name, "inv", y))

    def roundtrip():
        r = st["r"]
        back = fn.invmapfn(r)
        ctx.transitions += 1
        nsat = 0
        for x, y in zip(D, back.tolist()):
            ctx.evaluations += 1
            if x == math.inf:
                require(y == math.inf, P + ":roundtrip-d-r-d", f"invmapfn(mapfn(inf)) = {y!r}")
                continue
            tol, sat = R.roundtrip_tolerance(name, x)
            if sat:
                nsat += 1
                require(y == y and y > 1.0, P + ":roundtrip-d-r-d", f"saturated region: invmapfn(mapfn({x!r})) = {y!r} is not a large distance")
                continue
            require(abs(y - x) <= tol, P + ":roundtrip-d-r-d", f"invmapfn(mapfn({x!r})) = {y!r} (allowed error {tol:.3g})")
            ctx.nontriv(("fn", name, x))
        ctx.count(f"fn:{name}:saturated-grid-points", nsat)
        ctx.count(f"fn:{name}:roundtrip-grid-points", len(D) - nsat)
        ctx.flag(f"fn:{name}:roundtrip")

    ok = ctx.guard(forward, case=case, sig_prefix=P + ".mapfn:")
    if ok:
        ok &= ctx.guard(shapes, case=case, sig_prefix=P + ":")
        ok &= ctx.guard(roundtrip, case=case, sig_prefix=P + ".invmapfn:")
    ok &= ctx.guard(inverse, case=case, sig_prefix=P + ".invmapfn:")
    if ok:
        ctx.traces += 1
    ctx.sample(dict(case, d=[D[1], D[len(D) // 2], D[-2]], r=[float(st["r"][1]), float(st["r"][len(D) // 2]), float(st["r"][-2])]) if "r" in st else case)


# ----------------------------------------------------------------------------
# map layer: construction
def _arr(vals, dt):
    return numpy.array(list(vals), dtype=dt)


def _ext_fields(rows):
    return dict(vrnt_stop=_arr((r[1] + 1 + r[3] for r in rows), "int64"),
                vrnt_name=_arr((f"v{r[3]}" for r in rows), object),
                vrnt_fncode=_arr((("H", "K", "M")[r[3] % 3] for r in rows), object))


def build(clsname, mode, rows, keep=None):
    """Construct the real map from rows given in the supplied order.  `keep`, if a list, receives
    (array handed to the constructor, private copy) pairs so the caller can verify they were left alone."""
    cls = _cls(clsname)
    kw = dict(vrnt_chrgrp=_arr((r[0] for r in rows), "int64"), vrnt_phypos=_arr((r[1] for r in rows), "int64"))
    gen = _arr((r[2] for r in rows), "float64")
    if clsname == "ExtendedGeneticMap":
        kw.update(_ext_fields(rows))
    if mode == "cM":
        gen = gen * 100.0
    if keep is not None:
        keep.extend((a, a.copy()) for a in list(kw.values()) + [gen])
    if mode == "auto":
        return cls(vrnt_genpos=gen, **kw)
    if mode == "cM":
        return cls(vrnt_genpos=gen, vrnt_genpos_units="cM", **kw)
    if mode == "manual":
        g = cls(vrnt_genpos=gen, auto_group=False, auto_build_spline=False, **kw)
        g.build_spline()
        return g
    raise ValueError(mode)


def _inputs_untouched(keep):
    return all((a.tolist() == b.tolist()) if a.dtype == object else numpy.array_equal(a, b) for a, b in keep)


class MapCase:
    """Everything that is constant over the row orders of one map."""

    def __init__(self, clsname, mode, rows, absent):
        self.clsname, self.mode, self.absent = clsname, mode, absent
        self.model = R.MapModel(rows)
        assert self.model.valid()
        self.rows = self.model.rows                      # canonical order
        self.n = len(self.rows)
        self.c_chr = _arr((r[0] for r in self.rows), "int64")
        self.c_phy = _arr((r[1] for r in self.rows), "int64")
        self.c_gen = _arr((r[2] for r in self.rows), "float64")
        self.ext = _ext_fields(self.rows) if clsname == "ExtendedGeneticMap" else None
        self.grp = [_arr(v, "int64") for v in self.model.groups()]
        # short query set used for every row order: first and last marker of every chromosome + one
        # midpoint per segment (all own markers are queried once per map in run_laws)
        q = []
        for c in self.model.chroms:
            pts = self.model.by_chr[c]
            q += [(c, pts[0][0]), (c, pts[-1][0])]
        self.nknot = len(q)
        for c in self.model.chroms:
            pts = self.model.by_chr[c]
            for (x0, _), (x1, _) in zip(pts, pts[1:]):
                if x1 - x0 >= 2:
                    q.append((c, (x0 + x1) // 2))
        self.q_chr = _arr((c for c, _ in q), "int64")
        self.q_phy = _arr((x for _, x in q), "int64")
        self.q_exp = _arr((float(self.model.interp(c, x)[1]) for c, x in q), "float64")
        self.nmid = len(q) - self.nknot

    def case(self, order, laws=False):
        return dict(layer="map", cls=self.clsname, mode=self.mode, absent=int(self.absent), laws=laws,
                    rows=[[int(self.rows[i][0]), int(self.rows[i][1]), float(self.rows[i][2])] for i in order])


def check_order(ctx, mc: MapCase, order):
    """One (map, row order): construct, compare the state, interpolate."""
    P = mc.clsname
    rows = [mc.rows[i] for i in order]
    keep = []
    g = build(mc.clsname, mc.mode, rows, keep)
    ctx.transitions += 1
    if mc.mode == "manual":
        # nothing may have been sorted or grouped yet; the spline must already answer correctly
        require(numpy.array_equal(g.vrnt_chrgrp, mc.c_chr[list(order)]) and numpy.array_equal(g.vrnt_phypos, mc.c_phy[list(order)])
                and numpy.array_equal(g.vrnt_genpos, mc.c_gen[list(order)]), P + ":manual-construction-reordered",
                "auto_group=False changed the row order")
    else:
        _check_state(g, mc, P)
    out = g.interp_genpos(mc.q_chr, mc.q_phy)
    ctx.transitions += 1
    require(out.shape == mc.q_exp.shape, P + ".interp_genpos:shape", f"shape {out.shape}")
    ok = numpy.isclose(out, mc.q_exp, rtol=1e-9, atol=1e-12)
    if not ok.all():
        i = int(numpy.nonzero(~ok)[0][0])
        kind = "own-markers" if i < mc.nknot else "linear"
        raise Violation(P + ".interp_genpos:" + kind,
                        f"chromosome {int(mc.q_chr[i])} position {int(mc.q_phy[i])}: got {out[i]!r}, row list gives {mc.q_exp[i]!r} "
                        f"(rows supplied as {[(r[0], r[1], r[2]) for r in rows]})")
    require(_inputs_untouched(keep), P + ":input-mutated", "construction / interpolation changed the arrays the caller handed to the constructor")
    if mc.mode == "manual":
        # the rows must still be the supplied multiset; if the object now claims to be grouped it must be sorted
        got = sorted(zip(g.vrnt_chrgrp.tolist(), g.vrnt_phypos.tolist(), g.vrnt_genpos.tolist()))
        require(got == [(r[0], r[1], r[2]) for r in mc.rows], P + ":rows-lost", f"rows after interpolation {got}")
        if g.is_grouped():
            _check_state(g, mc, P)


def _check_state(g, mc, P):
    exact = mc.mode != "cM"
    ok = (numpy.array_equal(g.vrnt_chrgrp, mc.c_chr) and numpy.array_equal(g.vrnt_phypos, mc.c_phy)
          and (numpy.array_equal(g.vrnt_genpos, mc.c_gen) if exact else close(g.vrnt_genpos, mc.c_gen)))
    require(ok, P + ":state-after-construction",
            lambda: f"state after construction chr={g.vrnt_chrgrp.tolist()} phys={g.vrnt_phypos.tolist()} gen={g.vrnt_genpos.tolist()}; "
                    f"sorted row list is chr={mc.c_chr.tolist()} phys={mc.c_phy.tolist()} gen={mc.c_gen.tolist()}")
    if mc.ext is not None:
        require(numpy.array_equal(g.vrnt_stop, mc.ext["vrnt_stop"]) and g.vrnt_name.tolist() == mc.ext["vrnt_name"].tolist()
                and g.vrnt_fncode.tolist() == mc.ext["vrnt_fncode"].tolist(), P + ":row-attributes-detached",
                lambda: f"stop={g.vrnt_stop.tolist()} name={g.vrnt_name.tolist()} fncode={g.vrnt_fncode.tolist()} do not follow their rows")
    require(g.is_grouped() and all(a is not None and numpy.array_equal(a, b) for a, b in
                                   zip((g.vrnt_chrgrp_name, g.vrnt_chrgrp_stix, g.vrnt_chrgrp_spix, g.vrnt_chrgrp_len), mc.grp)),
            P + ":group-metadata", lambda: f"name/stix/spix/len = {g.vrnt_chrgrp_name},{g.vrnt_chrgrp_stix},{g.vrnt_chrgrp_spix},{g.vrnt_chrgrp_len}")
    require(len(g) == mc.n and g.nvrnt == mc.n, P + ":length", f"len {len(g)}")


# ----------------------------------------------------------------------------
def _law(ctx, fn, case, sig_prefix):
    """guard one law family of one map; an agreeing family is one validated reference behaviour"""
    ok = ctx.guard(fn, case=case, sig_prefix=sig_prefix)
    if ok:
        ctx.traces += 1
    return ok


# ----------------------------------------------------------------------------
# map layer: laws (one map, built from the reversed canonical order)
def _interior(x0, x1):
    return sorted({x for x in (x0 + 1, (x0 + x1) // 2, x1 - 1) if x0 < x < x1})


def query_sets(model, absent):
    own = [(r[0], r[1]) for r in model.rows]
    inside, outside = [], []
    for c in model.chroms:
        pts = model.by_chr[c]
        for (x0, _), (x1, _) in zip(pts, pts[1:]):
            inside += [(c, x) for x in _interior(x0, x1)]
        lo, hi = pts[0][0], pts[-1][0]
        outside += [(c, x) for x in (lo - 5, lo - 1) if x >= 0]
        outside += [(c, hi + 1), (c, hi + 1000)]
    absentq = [(absent, model.rows[0][1]), (absent, model.rows[-1][1] + 3)]
    return own, inside, outside, absentq


def _q(pairs):
    return _arr((c for c, _ in pairs), "int64"), _arr((x for _, x in pairs), "int64")


def run_laws(ctx, mc: MapCase):
    P = mc.clsname
    model = mc.model
    order = list(range(mc.n))[::-1]
    case = mc.case(order, laws=True)
    rows = [mc.rows[i] for i in order]
    box = {}

    def construct():
        box["g"] = build(mc.clsname, "auto", rows)
        ctx.transitions += 1
        _check_state(box["g"], mc, P)
    if not _law(ctx, construct, case, P + ":"):
        return False
    g = box["g"]
    own, inside, outside, absentq = query_sets(model, mc.absent)
    congruent = model.congruent()
    qall = own + inside + outside + absentq
    allok = True

    # ---- interpolation kinds -------------------------------------------------------------
    def interp_kinds():
        qc, qx = _q(qall)
        qc0, qx0 = qc.copy(), qx.copy()
        res = g.interp_genpos(qc, qx)
        ctx.transitions += 1
        box["res_all"] = res
        require(res.shape == qc.shape and res.dtype.kind == "f", P + ".interp_genpos:shape", f"{res.shape} {res.dtype}")
        require(numpy.array_equal(qc, qc0) and numpy.array_equal(qx, qx0), P + ".interp_genpos:input-mutated", "query arrays changed")
        for (c, x), y in zip(qall, res.tolist()):
            ctx.evaluations += 1
            k = model.interp(c, x)
            if k is None:
                require(y != y, P + ".interp_genpos:absent-chromosome", f"chromosome {c} is not in the map but position {x} -> {y!r} (expected NaN)")
                ctx.flag("q:absent")
            elif k[0] == "knot":
                require(close(y, float(k[1])), P + ".interp_genpos:own-markers", f"marker ({c},{x}) stored at {float(k[1])!r}, interpolated {y!r}")
                ctx.flag("q:knot")
            elif k[0] == "inside":
                require(close(y, float(k[1])), P + ".interp_genpos:linear", f"({c},{x}) between flanking markers: got {y!r}, linear {float(k[1])!r}")
                ctx.flag("q:inside")
            else:
                require(y == y and math.isfinite(y), P + ".interp_genpos:outside-missing", f"({c},{x}) outside the span of a mapped chromosome -> {y!r}")
                ctx.count("outside:linear-continuation" if close(y, float(k[1])) else "outside:other-extrapolation")
                ctx.flag("q:" + k[0])
        if congruent:
            for c in model.chroms:
                pts = sorted((x, y) for (cc, x), y in zip(qall, res.tolist()) if cc == c)
                for (xa, ya), (xb, yb) in zip(pts, pts[1:]):
                    require(yb >= ya - 1e-12 * max(1.0, abs(ya)), P + ".interp_genpos:order",
                            f"congruent map, chromosome {c}: position {xa} -> {ya!r} but {xb} -> {yb!r}")
            ctx.flag("order-preserving-checked")
    allok &= _law(ctx, interp_kinds, case, P + ".interp_genpos:")

    def query_order():
        res = box["res_all"]
        n = len(qall)
        for perm in (list(range(n))[::-1], list(range(1, n)) + [0], list(range(0, n, 2)) + list(range(1, n, 2))):
            qc, qx = _q([qall[i] for i in perm])
            r2 = g.interp_genpos(qc, qx)
            ctx.transitions += 1
            ctx.evaluations += 1
            require(close(r2, res[perm]), P + ".interp_genpos:query-order", f"result depends on the order of the query markers (order {perm})")
        for i in (0, n - 1):
            qc, qx = _q([qall[i]])
            r1 = g.interp_genpos(qc, qx)
            ctx.transitions += 1
            require(close(r1, res[[i]]), P + ".interp_genpos:query-order", f"single-marker query {qall[i]} -> {r1}, in the full query {res[i]!r}")
    if "res_all" in box:
        allok &= _law(ctx, query_order, case, P + ".interp_genpos:")

    if congruent:
        allok &= _laws_gdist(ctx, mc, g, case, own, inside, outside)
        allok &= _laws_xoprob(ctx, mc, g, case, own, inside, outside, absentq)
    allok &= _laws_interp_gmap(ctx, mc, g, case, own, inside, outside, absentq)

    allok &= _laws_edit(ctx, mc, case)
    allok &= _laws_chromset(ctx, mc, case)
    allok &= _laws_nonmutating(ctx, mc, case)

    def final_state():
        _check_state(g, mc, P)
    allok &= _law(ctx, final_state, case, P + ":after-queries:")
    if "res_all" in box:
        ctx.outcome(("map", box["res_all"]))
    return allok


def _laws_edit(ctx, mc, case):
    """A map that reached its rows through remove()/select() and an explicit build_spline() is a genetic map like
    any other: its state is the sorted remaining rows and it interpolates them."""
    P = mc.clsname
    ok = True
    for i in range(mc.n):
        rest = [r for j, r in enumerate(mc.rows) if j != i]
        if not R.MapModel(rest).valid() or len({r[0] for r in rest}) != len(mc.model.chroms):
            continue
        mc2 = MapCase(mc.clsname, "auto", rest, mc.absent)
        for op in ("remove", "select"):
            def edit(op=op, i=i, mc2=mc2):
                g = build(mc.clsname, "auto", mc.rows[::-1])
                g.interp_genpos(mc.q_chr, mc.q_phy)          # the map has been used before it is edited
                if op == "remove":
                    g.remove(i)
                else:
                    g.select(numpy.array([j for j in range(mc.n) if j != i], dtype="int64"))
                g.build_spline()
                ctx.transitions += 3
                ctx.evaluations += 1
                try:
                    _check_state(g, mc2, P)
                except Violation as v:
                    raise Violation(f"{P}.{op}:state", v.detail)
                out = g.interp_genpos(mc2.q_chr, mc2.q_phy)
                ctx.transitions += 1
                require(close(out, mc2.q_exp), f"{P}.{op}+build_spline:interp_genpos",
                        lambda: f"after {op} of row {i} and build_spline(): interpolation {out.tolist()} expected {mc2.q_exp.tolist()} for rows {[(r[0], r[1], r[2]) for r in mc2.rows]}")
                ctx.flag("edit:" + op)
            ok &= _law(ctx, edit, case, f"{P}.{op}:")
    return ok


def _laws_chromset(ctx, mc, case):
    """The chromosome SET of one map object shrinks (all markers of a chromosome removed / only the others selected /
    interp_gmap onto fewer chromosomes) and build_spline() is called: the remaining rows are interpolated as before and
    the dropped chromosome is now absent from the map, i.e. positions on it are reported missing."""
    P = mc.clsname
    ok = True
    chroms = mc.model.chroms
    if len(chroms) < 2:
        return True
    for drop in chroms:
        rest = [r for r in mc.rows if r[0] != drop]
        gone = [j for j, r in enumerate(mc.rows) if r[0] == drop]
        keep = [j for j, r in enumerate(mc.rows) if r[0] != drop]
        mc2 = MapCase(mc.clsname, "auto", rest, mc.absent)
        dq_c, dq_x = _q([(r[0], r[1]) for r in mc.rows if r[0] == drop] + [(drop, mc.rows[gone[0]][1] + 1)])
        for op in ("remove", "select", "interp_gmap"):
            def shrink(op=op, drop=drop, mc2=mc2, gone=gone, keep=keep, dq_c=dq_c, dq_x=dq_x):
                g = build(mc.clsname, "auto", mc.rows[::-1])
                before = g.interp_genpos(dq_c, dq_x)         # the dropped chromosome is interpolated while it is in the map
                require(not numpy.isnan(before).any(), P + ".interp_genpos:outside-missing", "chromosome of the map reported missing")
                if op == "remove":
                    g.remove(numpy.array(gone, dtype="int64"))
                elif op == "select":
                    g.select(numpy.array(keep, dtype="int64"))
                else:
                    kw = {}
                    if mc.ext is not None:
                        kw = {k: v[keep] for k, v in mc.ext.items()}
                    g = g.interp_gmap(mc.c_chr[keep], mc.c_phy[keep], **kw)
                g.build_spline()
                ctx.transitions += 4
                ctx.evaluations += 1
                got = sorted(zip(g.vrnt_chrgrp.tolist(), g.vrnt_phypos.tolist(), g.vrnt_genpos.tolist()))
                require(len(got) == len(mc2.rows) and all(a[0] == r[0] and a[1] == r[1] and close(a[2], r[2]) for a, r in zip(got, mc2.rows)),
                        f"{P}.{op}:state", lambda: f"after dropping chromosome {drop} by {op}: rows {got}")
                out = g.interp_genpos(mc2.q_chr, mc2.q_phy)
                ctx.transitions += 2
                require(close(out, mc2.q_exp), f"{P}.{op}+build_spline:interp_genpos",
                        lambda: f"after dropping chromosome {drop} by {op} and build_spline(): {out.tolist()} expected {mc2.q_exp.tolist()}")
                dead = g.interp_genpos(dq_c, dq_x)
                require(bool(numpy.isnan(dead).all()), f"{P}.{op}+build_spline:dropped-chromosome-still-interpolated",
                        lambda: f"chromosome {drop} was dropped from the map by {op} and the spline rebuilt, but positions {dq_x.tolist()} on it "
                                f"still interpolate to {dead.tolist()} (expected NaN: the chromosome is absent from the map)")
                ctx.flag("chromset:" + op)
            ok &= _law(ctx, shrink, case, f"{P}.{op}:chromset:")
    return ok


def _full_state(g, q_chr, q_phy):
    """everything observable about a map: arrays, group metadata, spline answers"""
    st = {k: (None if getattr(g, k, None) is None else numpy.array(getattr(g, k)).copy())
          for k in ("vrnt_chrgrp", "vrnt_phypos", "vrnt_genpos", "vrnt_stop", "vrnt_name", "vrnt_fncode",
                    "vrnt_chrgrp_name", "vrnt_chrgrp_stix", "vrnt_chrgrp_spix", "vrnt_chrgrp_len") if hasattr(g, k)}
    st["spline_kind"], st["spline_fill_value"] = g.spline_kind, g.spline_fill_value
    st["spline_keys"] = sorted(int(k) for k in g.spline) if g.spline is not None else None
    st["interp"] = g.interp_genpos(q_chr, q_phy)
    return st


def _state_diff(a, b):
    for k in a:
        x, y = a[k], b[k]
        if isinstance(x, numpy.ndarray) or isinstance(y, numpy.ndarray):
            if x is None or y is None or x.shape != y.shape or x.dtype != y.dtype:
                return k
            if x.dtype == object:
                if x.tolist() != y.tolist():
                    return k
            elif not numpy.array_equal(x, y, equal_nan=(x.dtype.kind == "f")):
                return k
        elif x != y:
            return k
    return None


def _laws_nonmutating(ctx, mc, case):
    """query - call a public method that is documented as non-mutating - query again: the full state of the map and its
    answers must be bit-identical, and a repeated export must equal the first one (both unit options, both classes)."""
    import tempfile
    with tempfile.TemporaryDirectory(prefix="mc_c11_") as d:      # files written by to_csv / to_egmap; removed on exit
        return _laws_nonmutating_in(ctx, mc, case, d)


def _laws_nonmutating_in(ctx, mc, case, d):
    import os
    P = mc.clsname
    ok = True
    qc, qx = _q([(r[0], r[1]) for r in mc.rows] + [(mc.absent, 3)])
    qs = sorted((r[0], r[1]) for r in mc.rows)
    sc, sx = _q(qs)
    ext = mc.ext is not None
    fns = [_cls(n)() for n in FNS]
    for mode in ("auto", "cM"):
        box = {}

        def construct(mode=mode):
            box["g"] = build(mc.clsname, mode, mc.rows[::-1])
            box["g"].interp_genpos(qc, qx)       # settle lazy grouping before the snapshot
            box["s0"] = box["prev"] = _full_state(box["g"], qc, qx)
            ctx.transitions += 3
        if not ctx.guard(construct, case=case, sig_prefix=P + ":"):
            return False
        g, s0 = box["g"], box["s0"]
        ekw = dict(vrnt_stop=sx + 1) if ext else {}
        calls = [("to_pandas[cM]", lambda: g.to_pandas()), ("to_pandas[cM]#2", lambda: g.to_pandas()),
                 ("to_pandas[M]", lambda: g.to_pandas(vrnt_genpos_units="M")),
                 ("to_csv", lambda: g.to_csv(os.path.join(d, "m.csv"))),
                 ("copy", lambda: g.copy()), ("deepcopy", lambda: g.deepcopy()),
                 ("interp_genpos", lambda: g.interp_genpos(sc, sx)), ("interp_gmap", lambda: g.interp_gmap(sc.copy(), sx.copy(), **ekw)),
                 ("gdist1g", lambda: g.gdist1g(mc.c_chr, mc.c_gen)), ("gdist2g", lambda: g.gdist2g(mc.c_chr, mc.c_gen)),
                 ("gdist1p", lambda: g.gdist1p(sc, sx)), ("gdist2p", lambda: g.gdist2p(sc, sx)),
                 ("rprob1g", lambda: fns[0].rprob1g(g, mc.c_chr, mc.c_gen)), ("rprob2p", lambda: fns[1].rprob2p(g, sc, sx)),
                 ("is_congruent", lambda: g.is_congruent()), ("congruence", lambda: g.congruence()),
                 ("has_spline", lambda: g.has_spline()), ("is_grouped", lambda: g.is_grouped()), ("lexsort", lambda: g.lexsort()),
                 ("len", lambda: len(g))]
        if ext:
            calls.insert(4, ("to_egmap", lambda: g.to_egmap(os.path.join(d, "m.egmap"))))
        results = {}
        for name, fn in calls:
            def one(name=name, fn=fn):
                results[name] = fn()
                ctx.transitions += 2
                ctx.evaluations += 1
                sp = box["prev"]                      # state right before THIS call (only the mutating method is blamed)
                s1 = _full_state(g, qc, qx)
                box["prev"] = s1
                k = _state_diff(sp, s1)
                require(k is None, f"{P}.{name.split('[')[0].split('#')[0]}:mutates-map",
                        lambda: f"{name} changed the map's {k}: {sp[k]!r} -> {s1[k]!r} (rows {[(r[0], r[1], r[2]) for r in mc.rows]}, construction units {mode})")
            ok &= _law(ctx, one, case, f"{P}.{name}:")
        ctx.flag("nonmutating:" + mode)

        def exports():
            a, b, m_ = results.get("to_pandas[cM]"), results.get("to_pandas[cM]#2"), results.get("to_pandas[M]")
            if a is None or b is None or m_ is None:
                return
            col = "cM"
            require(a.equals(b), P + ".to_pandas:second-export-differs", lambda: f"first export {a[col].tolist()} second {b[col].tolist()}")
            require(a["chr"].tolist() == mc.c_chr.tolist() and a["pos"].tolist() == mc.c_phy.tolist()
                    and close(a[col].to_numpy(dtype=float), 100.0 * mc.c_gen) and close(m_[col].to_numpy(dtype=float), mc.c_gen),
                    P + ".to_pandas:value", lambda: f"exported {a.to_dict('list')} for rows {[(r[0], r[1], r[2]) for r in mc.rows]}")
            for nm in ("copy", "deepcopy"):
                c = results.get(nm)
                if c is not None and _state_diff(s0, box["prev"]) is None:
                    require(type(c) is type(g) and _state_diff(s0, _full_state(c, qc, qx)) is None, f"{P}.{nm}:differs", f"{nm}() is not an equal map")
            if _state_diff(s0, box["prev"]) is None:
                own = g.interp_genpos(g.vrnt_chrgrp, g.vrnt_phypos)
                require(close(own, g.vrnt_genpos), P + ".interp_genpos:own-markers", "after the non-mutating calls the map no longer returns its stored positions")
        ok &= _law(ctx, exports, case, P + ".to_pandas:")
    return ok


def _ref_d1(chrs, gens):
    out = []
    for i in range(len(chrs)):
        if i == 0 or chrs[i] != chrs[i - 1]:
            out.append(math.inf)
        else:
            out.append(gens[i] - gens[i - 1])
    return out


def _ref_d2(chrs, gens):
    return [[R.pair_distance(chrs[i], gens[i], chrs[j], gens[j]) for j in range(len(chrs))] for i in range(len(chrs))]


def _f(x):
    return [[float(v) for v in row] for row in x] if x and isinstance(x[0], list) else [float(v) for v in x]


def _laws_gdist(ctx, mc, g, case, own, inside, outside):
    P = mc.clsname
    n = mc.n
    chrs = [r[0] for r in mc.rows]
    gfr = [Fraction(r[2]) for r in mc.rows]
    ok = True

    def g2():
        D = g.gdist2g(mc.c_chr, mc.c_gen)
        ctx.transitions += 1
        ctx.evaluations += 1
        require(D.shape == (n, n), P + ".gdist2g:shape", f"{D.shape}")
        ref = numpy.array(_f(_ref_d2(chrs, gfr)))
        require(close(D, ref), P + ".gdist2g:value", lambda: f"got {D.tolist()} expected |g_i-g_j| / inf = {ref.tolist()}")
        require(close(D, D.T), P + ".gdist2g:symmetry", lambda: f"not symmetric {D.tolist()}")
        require(bool((numpy.diag(D) == 0).all()), P + ".gdist2g:diagonal", lambda: f"diagonal {numpy.diag(D).tolist()}")
        for i in range(n):
            for j in range(n):
                if chrs[i] != chrs[j]:
                    require(D[i, j] == math.inf, P + ".gdist2g:across-chromosomes", f"markers {i},{j} on chromosomes {chrs[i]},{chrs[j]}: distance {D[i, j]!r}")
                    ctx.flag("gdist2g:across")
                for k in range(j + 1, n):
                    if i < j and chrs[i] == chrs[j] == chrs[k]:
                        require(close(D[i, k], D[i, j] + D[j, k]), P + ".gdist2g:additivity",
                                f"ordered markers {i}<{j}<{k}: d(i,k)={D[i, k]!r} but d(i,j)+d(j,k)={D[i, j] + D[j, k]!r}")
                        ctx.flag("gdist2g:additive-triple")
        # index windows are the corresponding blocks of the full matrix: every row window with all columns,
        # every column window with all rows, every (row window == column window), every pair of abutting windows
        idx = [None] + list(range(n + 1))
        wins = [(a, b) for a in idx for b in idx if (0 if a is None else a) < (n if b is None else b)]
        combos = [(w, (None, None)) for w in wins] + [((None, None), w) for w in wins] + [(w, w) for w in wins]
        combos += [((a, b), (b, None)) for (a, b) in wins if b is not None and b < n]
        for (a, b), (c, d) in combos:
            W = g.gdist2g(mc.c_chr, mc.c_gen, a, b, c, d)
            ctx.transitions += 1
            require(close(W, ref[a:b, c:d]), P + ".gdist2g:window", f"rst,rsp,cst,csp={a},{b},{c},{d}: {W.tolist()} is not the block of the full matrix")
        ctx.count("gdist2g-windows", len(combos))
        ctx.outcome(("d2", D))
    ok &= _law(ctx, g2, case, P + ".gdist2g:")

    def g1():
        d1 = g.gdist1g(mc.c_chr, mc.c_gen)
        ctx.transitions += 1
        ctx.evaluations += 1
        require(d1.shape == (n,), P + ".gdist1g:shape", f"{d1.shape}")
        ref = numpy.array(_f(_ref_d1(chrs, gfr)))
        for i in range(n):
            if ref[i] == math.inf:
                require(d1[i] == math.inf, P + ".gdist1g:chromosome-start", f"first marker of chromosome {chrs[i]} (index {i}) has distance {d1[i]!r}, expected inf")
        require(close(d1, ref), P + ".gdist1g:value", lambda: f"got {d1.tolist()} expected first differences {ref.tolist()}")
        D = g.gdist2g(mc.c_chr, mc.c_gen)
        ctx.transitions += 1
        for i in range(1, n):
            if chrs[i] == chrs[i - 1]:
                require(close(d1[i], D[i - 1, i]), P + ".gdist1g:vs-pairwise", f"sequential {d1[i]!r} vs pairwise {D[i - 1, i]!r} at index {i}")
        nw = 0
        idx = [None] + list(range(n + 1))
        for a in idx:
            for b in idx:
                lo, hi = (0 if a is None else a), (n if b is None else b)
                if lo >= hi:
                    continue
                w = g.gdist1g(mc.c_chr, mc.c_gen, a, b)
                ctx.transitions += 1
                nw += 1
                e = ref[lo:hi]
                # the first element of a window that starts inside a chromosome may be the distance or inf
                require(w.shape == e.shape and close(w[1:], e[1:]) and (close(w[0], e[0]) or w[0] == math.inf),
                        P + ".gdist1g:window", f"ast,asp={a},{b}: {w.tolist()} vs slice of the full result {e.tolist()}")
        ctx.count("gdist1g-windows", nw)
        ctx.outcome(("d1", d1))
    ok &= _law(ctx, g1, case, P + ".gdist1g:")

    qs = sorted(own + inside + outside)
    qc, qx = _q(qs)

    def gp():
        gp_ = g.interp_genpos(qc, qx)
        ctx.transitions += 1
        cl = qc.tolist()
        e1 = numpy.array(_ref_d1(cl, gp_.tolist()))
        e2 = numpy.array(_ref_d2(cl, gp_.tolist()))
        d1 = g.gdist1p(qc, qx)
        d2 = g.gdist2p(qc, qx)
        ctx.transitions += 2
        ctx.evaluations += 2
        require(close(d1, e1), P + ".gdist1p:value", lambda: f"got {d1.tolist()}, first differences of the interpolated positions are {e1.tolist()}")
        require(close(d2, e2), P + ".gdist2p:value", lambda: f"got {d2.tolist()}, pairwise differences of the interpolated positions are {e2.tolist()}")
        require(close(d2, d2.T) and bool((numpy.diag(d2) == 0).all()), P + ".gdist2p:symmetry", "not symmetric / non-zero diagonal")
        for i in range(1, len(cl)):
            if cl[i] == cl[i - 1]:
                require(close(d1[i], d2[i - 1, i]), P + ".gdist1p:vs-pairwise", f"index {i}: {d1[i]!r} vs {d2[i - 1, i]!r}")
        # own markers by physical position = stored genetic distances
        o1 = g.gdist1p(mc.c_chr, mc.c_phy)
        o2 = g.gdist2p(mc.c_chr, mc.c_phy)
        ctx.transitions += 2
        require(close(o1, numpy.array(_f(_ref_d1(chrs, gfr)))), P + ".gdist1p:own-markers", lambda: f"{o1.tolist()}")
        require(close(o2, numpy.array(_f(_ref_d2(chrs, gfr)))), P + ".gdist2p:own-markers", lambda: f"{o2.tolist()}")
        m = len(cl)
        for (a, b) in ((1, None), (None, m - 1), (1, m - 1)):
            w = g.gdist1p(qc, qx, a, b)
            ctx.transitions += 1
            e = e1[a:b]
            require(close(w[1:], e[1:]) and (close(w[0], e[0]) or w[0] == math.inf), P + ".gdist1p:window", f"ast,asp={a},{b}: {w.tolist()}")
            w2 = g.gdist2p(qc, qx, a, b, None, b)
            ctx.transitions += 1
            require(close(w2, e2[a:b, None:b]), P + ".gdist2p:window", f"rst,rsp,cst,csp={a},{b},None,{b}")
        box_e1, box_e2 = e1, e2
        # query sets that mix mapped chromosomes with a chromosome ABSENT from the map: the absent markers have no
        # position (NaN), but "infinite between chromosomes" / "one half" still holds for every pair of markers on
        # DIFFERENT chromosomes; within the absent chromosome the distance is unknown (NaN accepted, diagonal too)
        mixed = sorted(qs + [(mc.absent, 4), (mc.absent, 9)])
        mc_, mx_ = _q(mixed)
        ml = mc_.tolist()
        mg = g.interp_genpos(mc_, mx_)
        M2 = g.gdist2p(mc_, mx_)
        M2g = g.gdist2g(mc_, mg)
        M1 = g.gdist1p(mc_, mx_)
        ctx.transitions += 4
        ctx.evaluations += 3
        for i in range(len(ml)):
            if i == 0 or ml[i] != ml[i - 1]:
                require(M1[i] == math.inf, P + ".gdist1p:chromosome-start", f"query with absent chromosome {mc.absent}: first marker of chromosome {ml[i]} has distance {M1[i]!r}")
            for j in range(len(ml)):
                for nm, M in (("gdist2p", M2), ("gdist2g", M2g)):
                    if ml[i] != ml[j]:
                        require(M[i, j] == math.inf, f"{P}.{nm}:across-chromosomes",
                                f"markers on chromosomes {ml[i]} and {ml[j]} (chromosome {mc.absent} is absent from the map, its positions are missing): distance {M[i, j]!r}, expected inf")
                    elif ml[i] != mc.absent:
                        require(close(M[i, j], abs(mg[i] - mg[j])), f"{P}.{nm}:value", f"markers {i},{j} on chromosome {ml[i]}: {M[i, j]!r}")
                    else:
                        require(M[i, j] != M[i, j] or M[i, j] >= 0, f"{P}.{nm}:value", f"absent chromosome: {M[i, j]!r}")
        ctx.flag("gdist2p:absent-x-other-chromosome")
        # recombination probabilities of both map functions through the map
        for name in FNS:
            fn = _cls(name)()
            FP = f"{name}MapFunction"
            r1 = fn.rprob1g(g, mc.c_chr, mc.c_gen)
            r2 = fn.rprob2g(g, mc.c_chr, mc.c_gen)
            p1 = fn.rprob1p(g, qc, qx)
            p2 = fn.rprob2p(g, qc, qx)
            ctx.transitions += 4
            ctx.evaluations += 4
            ref1 = [R.MAPFN[name](float(v)) for v in _ref_d1(chrs, gfr)]
            ref2 = [[R.MAPFN[name](float(v)) for v in row] for row in _ref_d2(chrs, gfr)]
            require(close(r1, ref1), FP + ".rprob1g:value", lambda: f"{r1.tolist()} expected {ref1}")
            require(close(r2, ref2), FP + ".rprob2g:value", lambda: f"{r2.tolist()} expected {ref2}")
            require(close(p1, [R.mapfn_nan(name, v) for v in box_e1.tolist()]), FP + ".rprob1p:value", lambda: f"{p1.tolist()}")
            require(close(p2, [[R.mapfn_nan(name, v) for v in row] for row in box_e2.tolist()]), FP + ".rprob2p:value", lambda: f"{p2.tolist()}")
            m2 = fn.rprob2p(g, mc_, mx_)
            m1 = fn.rprob1p(g, mc_, mx_)
            ctx.transitions += 2
            for i in range(len(ml)):
                if i == 0 or ml[i] != ml[i - 1]:
                    require(m1[i] == 0.5, FP + ".rprob1p:chromosome-start", f"query with an absent chromosome: first marker of chromosome {ml[i]} has {m1[i]!r}")
                for j in range(len(ml)):
                    if ml[i] != ml[j]:
                        require(m2[i, j] == 0.5, FP + ".rprob2p:across-chromosomes",
                                f"markers on chromosomes {ml[i]} and {ml[j]} ({mc.absent} absent from the map): recombination probability {m2[i, j]!r}, expected 0.5")
            ctx.flag(f"rprob:{name}")
    ok &= _law(ctx, gp, case, P + ".gdist_p:")

    def untouched():
        require(mc.c_chr.tolist() == chrs and mc.c_phy.tolist() == [r[1] for r in mc.rows] and mc.c_gen.tolist() == [r[2] for r in mc.rows]
                and sorted(zip(qc.tolist(), qx.tolist())) == qs and list(zip(qc.tolist(), qx.tolist())) == qs,
                P + ".gdist:input-mutated", "a gdist*/rprob* call changed its argument arrays")
    ok &= _law(ctx, untouched, case, P + ".gdist:")
    return ok


def _valid_as_map(pairs, genpos):
    by = {}
    for (c, x), y in zip(pairs, genpos):
        if y != y:
            return False
        by.setdefault(c, []).append(x)
    return all(len(v) >= 2 and len(set(v)) == len(v) for v in by.values())


def _laws_interp_gmap(ctx, mc, g, case, own, inside, outside, absentq):
    P = mc.clsname
    ok = True
    sets = [("own-reversed", own[::-1]), ("dense", sorted(own + inside + outside)), ("all-unsorted", own[::-1] + absentq + inside + outside),
            ("first-two", own[:2])]
    for label, pairs in sets:
        box = {}

        def fields(pairs=pairs):
            qc, qx = _q(pairs)
            exp = g.interp_genpos(qc, qx)
            ctx.transitions += 1
            kw = {}
            if mc.ext is not None:
                kw = dict(vrnt_stop=qx + 2, vrnt_name=_arr((f"q{i}" for i in range(len(pairs))), object),
                          vrnt_fncode=_arr((("a", "b")[i % 2] for i in range(len(pairs))), object))
            out = g.interp_gmap(qc.copy(), qx.copy(), **kw)
            ctx.transitions += 1
            ctx.evaluations += 1
            box["out"], box["exp"] = out, exp
            require(type(out) is type(g), P + ".interp_gmap:fields", f"returns {type(out).__name__}")
            require(len(out) == len(pairs), P + ".interp_gmap:fields", f"{len(out)} markers for {len(pairs)} queried")

            def key(t):
                return (t[0], t[1], t[3:])
            cols = [out.vrnt_chrgrp.tolist(), out.vrnt_phypos.tolist(), out.vrnt_genpos.tolist()]
            ecols = [qc.tolist(), qx.tolist(), exp.tolist()]
            if mc.ext is not None:
                cols += [out.vrnt_stop.tolist(), out.vrnt_name.tolist(), out.vrnt_fncode.tolist()]
                ecols += [kw["vrnt_stop"].tolist(), kw["vrnt_name"].tolist(), kw["vrnt_fncode"].tolist()]
            got = sorted(zip(*cols), key=key)
            want = sorted(zip(*ecols), key=key)
            same_rows = len(got) == len(want) and all(key(a) == key(b) and close(a[2], b[2]) for a, b in zip(got, want))
            require(same_rows, P + ".interp_gmap:fields", lambda: f"rows of the interpolated map {got} are not the queried markers with their interpolated positions {want}")
        f_ok = _law(ctx, fields, case, P + ".interp_gmap:")
        ok &= f_ok

        def derived(pairs=pairs):
            out = box["out"]
            oc, ox, og = out.vrnt_chrgrp.copy(), out.vrnt_phypos.copy(), out.vrnt_genpos.copy()
            try:
                r2 = out.interp_genpos(oc, ox)
            except Exception as e:   # one root cause, several exception types: one signature
                raise Violation(P + ".interp_gmap:derived-map:unusable",
                                f"the map returned by interp_gmap for markers {pairs} raises {type(e).__name__}: {e} when it is asked to "
                                f"interpolate at its own markers (its group metadata stix={out.vrnt_chrgrp_stix}, spix={out.vrnt_chrgrp_spix} "
                                f"describe the source map, not its own {len(out)} rows)")
            ctx.transitions += 1
            ctx.evaluations += 1
            # the derived map may have sorted itself meanwhile: compare per marker
            require(close(r2, og), P + ".interp_gmap:derived-map:own-markers",
                    lambda: f"the interpolated map does not return its stored positions at its own markers: {r2.tolist()} vs {og.tolist()}")
            ctx.flag("interp_gmap:derived-map-law")
        if f_ok and _valid_as_map(pairs, box["exp"].tolist()):
            ok &= _law(ctx, derived, case, P + ".interp_gmap:derived-map:")
        ctx.flag("interp_gmap:" + label)
    return ok


def _make_gmat(gname, pairs, pre=None):
    """Matrix whose column j carries the value j (provenance), markers given in REVERSED order.  With `pre` (a genetic
    map) the matrix is constructed already carrying vrnt_genpos = pre's interpolation and a dummy vrnt_xoprob."""
    pairs = pairs[::-1]
    p = len(pairs)
    qc, qx = _q(pairs)
    cls = _cls(gname)
    col = numpy.arange(p, dtype="int8")
    if gname == "DenseGenotypeMatrix":
        mat = numpy.tile(col, (2, 1))
    elif gname == "DensePhasedGenotypeMatrix":
        mat = numpy.tile(col, (2, 2, 1))
    else:
        mat = numpy.tile(col[:, None], (1, 2))
    kw = {}
    if pre is not None:
        kw = dict(vrnt_genpos=pre.interp_genpos(qc, qx), vrnt_xoprob=numpy.full(p, 0.25, dtype="float64"))
    m = cls(mat=mat, vrnt_chrgrp=qc, vrnt_phypos=qx, **kw)
    m.group_vrnt()
    return m, pairs


def _gmat_cols(gname, m):
    if gname == "DenseGenotypeMatrix":
        return m.mat[0].tolist()
    if gname == "DensePhasedGenotypeMatrix":
        return m.mat[0, 0].tolist()
    return m.mat[:, 0].tolist()


def _laws_xoprob(ctx, mc, g, case, own, inside, outside, absentq):
    model = mc.model
    ok = True
    dense = own + inside + outside + [(mc.absent, 4), (mc.absent, 9)]
    c0 = model.chroms[0]
    dup = own + [own[0], own[0]] + [q for q in inside if q[0] == c0]
    plan = [("DenseGenotypeMatrix", "own", own), ("DenseGenotypeMatrix", "dense+absent", dense), ("DenseGenotypeMatrix", "duplicates", dup),
            ("DensePhasedGenotypeMatrix", "dense+absent", dense), ("DenseGeneticMappableMatrix", "dense+absent", dense)]
    for gname, label, pairs in plan:
        shared = {}
        for name in FNS:
            GP = gname + ".interp_xoprob"

            def one(gname=gname, pairs=pairs, name=name, GP=GP, shared=shared):
                # one matrix object per marker set: the second map function is applied to the object that already
                # carries the first one's positions and probabilities (they must be replaced, not reused)
                if "m" not in shared:
                    shared["m"], shared["given"] = _make_gmat(gname, pairs)
                    ctx.transitions += 2
                m, given = shared["m"], shared["given"]
                qc, qx = m.vrnt_chrgrp.copy(), m.vrnt_phypos.copy()
                cols = _gmat_cols(gname, m)
                # grouping must have sorted the markers and kept each column with its marker
                require(sorted(zip(qc.tolist(), qx.tolist())) == list(zip(qc.tolist(), qx.tolist())), GP + ":gmat-not-sorted", "group_vrnt left the markers unsorted")
                require(all(given[j] == (c, x) for j, c, x in zip(cols, qc.tolist(), qx.tolist())), GP + ":gmat-columns-detached", "columns do not follow their markers")
                m.interp_xoprob(g, _cls(name)())
                ctx.transitions += 1
                ctx.evaluations += 1
                require(numpy.array_equal(m.vrnt_chrgrp, qc) and numpy.array_equal(m.vrnt_phypos, qx) and _gmat_cols(gname, m) == cols,
                        GP + ":gmat-mutated", "interp_xoprob changed the marker order / matrix")
                gp_, xo = m.vrnt_genpos, m.vrnt_xoprob
                require(gp_ is not None and xo is not None and gp_.shape == qc.shape and xo.shape == qc.shape, GP + ":shape", "genpos / xoprob missing or of wrong length")
                direct = g.interp_genpos(qc, qx)
                ctx.transitions += 1
                require(close(gp_, direct), GP + ":genpos", lambda: f"vrnt_genpos {gp_.tolist()} differs from the map's interpolation {direct.tolist()}")
                cl, xl, gl = qc.tolist(), qx.tolist(), gp_.tolist()
                for c, x, y in zip(cl, xl, gl):
                    k = model.interp(c, x)
                    if k is None:
                        require(y != y, GP + ":genpos", f"absent chromosome {c}: genetic position {y!r}")
                    elif k[0] in ("knot", "inside"):
                        require(close(y, float(k[1])), GP + ":genpos", f"({c},{x}) -> {y!r}, row list gives {float(k[1])!r}")
                exp = []
                for i in range(len(cl)):
                    if i == 0 or cl[i] != cl[i - 1]:
                        require(xo[i] == 0.5, GP + ":chromosome-start", f"first marker of chromosome {cl[i]} has crossover probability {xo[i]!r}, expected 0.5")
                        exp.append(0.5)
                        ctx.flag("xoprob:start")
                    else:
                        exp.append(R.mapfn_nan(name, gl[i] - gl[i - 1]))
                        if exp[-1] == 0.0:
                            ctx.flag("xoprob:zero-distance")
                        elif exp[-1] == exp[-1]:
                            ctx.flag("xoprob:positive")
                        else:
                            ctx.flag("xoprob:missing")
                require(close(xo, exp), GP + ":xoprob", lambda: f"{name}: vrnt_xoprob {xo.tolist()} expected mapfn of consecutive interpolated distances {exp} "
                                                                 f"(markers {list(zip(cl, xl))}, positions {gl})")
                ctx.outcome(("xo", name, xo))
                ctx.flag(f"xoprob:{gname}:{name}")
            ok &= _law(ctx, one, case, GP + ":")
    return ok


# ----------------------------------------------------------------------------
# pair layer: two-step histories of one matrix over two DIFFERENT maps with the same physical positions
def pair_specs(tier):
    """-> list of (specA, specB): all ordered pairs of distinct congruent genetic patterns on every physical layout of
    one chromosome (2 and 3 markers), plus two-chromosome pairs over three patterns per chromosome."""
    out = []
    for k in (2, 3):
        cfgs = chrom_configs(k)
        for p in itertools.combinations(range(4), k):
            gs = [g for (pp, g) in cfgs if pp == p]
            for ga in gs:
                for gb in gs:
                    if ga != gb:
                        out.append((((p, ga), None, False), ((p, gb), None, False)))
    g3 = {2: [(0, 1), (2, 2), (0, 3)], 3: [(0, 1, 3), (1, 1, 2), (0, 0, 0)]}
    for ka, kb in ((2, 2), (2, 3), (3, 2), (3, 3)):
        pa, pb = tuple(range(ka)), tuple(range(4 - kb, 4))
        maps = [((pa, g1), (pb, g2)) for g1 in g3[ka] for g2 in g3[kb]]
        for sw in ((False, True) if tier == "thorough" else (False,)):
            for A in maps:
                for B in maps:
                    if A != B:
                        out.append(((A[0], A[1], sw), (B[0], B[1], sw)))
    return out


FIRST_STEPS = ("constructed-with-genpos", "interp_genpos", "interp_xoprob")


def run_pair(ctx, clsname, specA, specB, seed):
    absent = labels_of(specB, seed)[3]
    mcA = MapCase(clsname, "auto", map_rows(specA, seed), absent)
    mcB = MapCase(clsname, "auto", map_rows(specB, seed), absent)
    case = dict(layer="pair", cls=clsname, absent=int(absent),
                rowsA=[[int(r[0]), int(r[1]), float(r[2])] for r in mcA.rows], rowsB=[[int(r[0]), int(r[1]), float(r[2])] for r in mcB.rows])
    _run_pair(ctx, mcA, mcB, case)


def _run_pair(ctx, mcA, mcB, case):
    clsname = mcB.clsname
    gA = build(clsname, "auto", mcA.rows[::-1])
    gB = build(clsname, "auto", mcB.rows[::-1])
    ctx.transitions += 2
    ctx.state(digest(("pair", clsname, [(r[0], r[1], r[2]) for r in mcA.rows], [(r[0], r[1], r[2]) for r in mcB.rows])))
    own, inside, outside, _ = query_sets(mcB.model, mcB.absent)
    pairs = own + inside + outside + [(mcB.absent, 4), (mcB.absent, 9)]
    allok = True
    for gname in GMATS[:2]:
        GP = gname + ".interp_xoprob"
        fresh = {}

        def baseline(gname=gname, fresh=fresh, GP=GP):
            # what a matrix that never saw another map holds after being placed on map B
            for name in FNS:
                m, _ = _make_gmat(gname, pairs)
                m.interp_xoprob(gB, _cls(name)())
                ctx.transitions += 3
                gl = m.vrnt_genpos.tolist()
                cl = m.vrnt_chrgrp.tolist()
                exp = [0.5 if (i == 0 or cl[i] != cl[i - 1]) else R.mapfn_nan(name, gl[i] - gl[i - 1]) for i in range(len(cl))]
                require(close(m.vrnt_genpos, gB.interp_genpos(m.vrnt_chrgrp, m.vrnt_phypos)), GP + ":genpos", "fresh matrix: positions differ from the map's interpolation")
                require(close(m.vrnt_xoprob, exp), GP + ":xoprob", lambda: f"fresh matrix, {name}: {m.vrnt_xoprob.tolist()} expected {exp}")
                fresh[name] = (m.vrnt_genpos.copy(), m.vrnt_xoprob.copy())
        if not ctx.guard(baseline, case=case, sig_prefix=GP + ":"):
            allok = False
            continue
        for first in FIRST_STEPS:
            for name in FNS:
                other = FNS[1 - FNS.index(name)]

                def history(gname=gname, first=first, name=name, other=other, GP=GP, fresh=fresh):
                    if first == "constructed-with-genpos":
                        m, _ = _make_gmat(gname, pairs, pre=gA)
                    else:
                        m, _ = _make_gmat(gname, pairs)
                        if first == "interp_genpos":
                            m.interp_genpos(gA)
                        else:
                            m.interp_xoprob(gA, _cls(other)())
                    ctx.transitions += 3
                    # the matrix now carries map A's positions; a genuinely different map follows
                    m.interp_xoprob(gB, _cls(name)())
                    ctx.transitions += 1
                    ctx.evaluations += 1
                    gp, xo = fresh[name]
                    require(close(m.vrnt_genpos, gp), GP + ":stale-genpos",
                            lambda: f"matrix that already carried positions ({first} on map A {[(r[0], r[1], r[2]) for r in mcA.rows]}) placed on map B "
                                    f"{[(r[0], r[1], r[2]) for r in mcB.rows]}: vrnt_genpos {m.vrnt_genpos.tolist()}, a fresh matrix on B gets {gp.tolist()}")
                    require(close(m.vrnt_xoprob, xo), GP + ":stale-xoprob",
                            lambda: f"after {first} on map A then interp_xoprob(B, {name}): vrnt_xoprob {m.vrnt_xoprob.tolist()}, a fresh matrix on B gets {xo.tolist()}")
                    # ... and interp_genpos alone must also move the matrix from B back to A
                    m.interp_genpos(gA)
                    ctx.transitions += 1
                    require(close(m.vrnt_genpos, gA.interp_genpos(m.vrnt_chrgrp, m.vrnt_phypos)), gname + ".interp_genpos:stale-genpos",
                            "interp_genpos(A) after interp_xoprob(B) left positions that are not map A's")
                    ctx.flag("pair:first:" + first)
                    ctx.flag(f"pair:{gname}:{name}")
                ok = ctx.guard(history, case=case, sig_prefix=GP + ":history:")
                allok &= ok
                if ok:
                    ctx.traces += 1
    ctx.count("map-pairs")
    ctx.count("map-pairs:%d-chromosome" % len(mcB.model.chroms))
    if allok and mcA.model.nonconstant() and mcB.model.nonconstant():
        ctx.nontriv(digest(("pair", case["rowsA"], case["rowsB"], clsname)))


# ----------------------------------------------------------------------------
def run_map_group(ctx, clsname, mode, specs, seed):
    for spec in specs:
        absent = labels_of(spec, seed)[3]
        rows = map_rows(spec, seed)
        mc = MapCase(clsname, mode, rows, absent)
        n = mc.n
        skey = digest((clsname, mode, [(r[0], r[1], r[2]) for r in rows]))
        ctx.state(skey)
        nontriv = mc.model.nonconstant()
        if nontriv:
            ctx.nontriv(skey)
        allok = True
        first = True
        for order in itertools.permutations(range(n)):
            ctx.evaluations += 1
            try:
                check_order(ctx, mc, order)
            except Exception:
                allok = False
                ctx.guard(lambda: check_order(ctx, mc, order), case=mc.case(order), sig_prefix=clsname + ":")
            if not first:
                ctx.count("row-orders-needing-sort")
            first = False
        ctx.count(f"maps:{clsname}:{mode}")
        ctx.count(f"row-orders:{n}-markers", math.factorial(n))
        ctx.flag(f"mode:{mode}")
        ctx.flag(f"nchrom:{len(mc.model.chroms)}")
        ch = mc.model.chroms
        if len(ch) > 1:
            ctx.flag("labels:consecutive" if all(b - a == 1 for a, b in zip(ch, ch[1:])) else "labels:non-consecutive")
        if mode == "auto" and sorted(set(ch + [absent])) != list(range(min(ch + [absent]), min(ch + [absent]) + len(set(ch + [absent])))):
            ctx.flag("labels:non-consecutive-boundary-in-query")
        ctx.flag("congruent" if mc.model.congruent() else "non-congruent")
        if mc.nmid:
            ctx.flag("midpoints")
        if any(a[1] == b[1] for pts in mc.model.by_chr.values() for a, b in zip(pts, pts[1:])):
            ctx.flag("tied-genetic-positions")
        if allok:
            ctx.traces += 1                      # every row order of this map agreed with the row-list model
        if mode == "auto":
            run_laws(ctx, mc)                    # each agreeing law family counts one more trace
        if spec[0][0][0] == 0 and (spec[1] is None or spec[1][1][-1] == 3) and spec[0][1][-1] == 2:
            ctx.sample(dict(mc.case(list(range(n))[::-1]), interp_at=list(zip(mc.q_chr.tolist(), mc.q_phy.tolist())), expected=mc.q_exp.tolist()))


def run_shard(spec, ctx):
    ctx.bounds.update({"chromosomes_max": "2 (3 with two markers each)", "markers_per_chromosome": "2..3", "position_alphabet": 4,
                       "row_orders": "all (<= 6!)", "classes": list(CLASSES), "seed_variant": ctx.seed % 3,
                       "chromosome_label_schemes": [list(x) for x in LABELS[ctx.seed % 3]], "map_pairs": len(pair_specs(ctx.tier))})
    if spec[0] == "fn":
        run_fn(ctx, spec[1], ctx.seed)
        return
    if spec[0] == "pair":
        _, clsname, lo, hi = spec
        for specA, specB in pair_specs(ctx.tier)[lo:hi]:
            run_pair(ctx, clsname, specA, specB, ctx.seed)
        return
    _, clsname, mode, gi, i, j = spec
    gmode, specs = _map_groups(ctx.tier)[gi]
    assert gmode == mode
    run_map_group(ctx, clsname, mode, specs[i:j], ctx.seed)


def finalize(ctx, tier, seed):
    # a violation aborts the oracle of its case early, so coverage flags of that case may be missing; the vacuity
    # guards protect a *silent* run, and a run with an unlisted violation is not silent (it exits 1 anyway)
    from ..core import load_known, match_known
    known = load_known()
    if any(match_known(ID, sig, known) is None for sig in ctx.violations):
        return
    for f in FNS:
        for k in ("mapfn-many-values", "shapes", "roundtrip"):
            assert f"fn:{f}:{k}" in ctx.flags, (f, k)
        assert ctx.counters.get(f"fn:{f}:saturated-grid-points", 0) > 0, "saturation region not reached"
        assert ctx.counters.get(f"fn:{f}:roundtrip-grid-points", 0) > 300
        assert f"rprob:{f}" in ctx.flags
    for c in CLASSES:
        for m in ("auto", "manual", "cM"):
            assert ctx.counters.get(f"maps:{c}:{m}", 0) > 0, (c, m)
    for n in (2, 3, 4, 5, 6):
        assert ctx.counters.get(f"row-orders:{n}-markers", 0) > 0, n
    for f in ("nchrom:1", "nchrom:2", "nchrom:3", "congruent", "non-congruent", "midpoints", "tied-genetic-positions",
              "q:absent", "q:knot", "q:inside", "q:below", "q:above", "order-preserving-checked",
              "gdist2g:across", "gdist2g:additive-triple", "gdist2p:absent-x-other-chromosome", "interp_gmap:own-reversed", "interp_gmap:dense", "interp_gmap:first-two",
              "interp_gmap:all-unsorted", "edit:remove", "edit:select", "chromset:remove", "chromset:select", "chromset:interp_gmap",
              "nonmutating:auto", "nonmutating:cM", "xoprob:start", "xoprob:zero-distance", "xoprob:positive", "xoprob:missing"):
        assert f in ctx.flags, f
    for gname in GMATS[:2]:
        for f in FNS:
            assert f"xoprob:{gname}:{f}" in ctx.flags, (gname, f)
    for f in FIRST_STEPS:
        assert "pair:first:" + f in ctx.flags, f
    for gname in GMATS[:2]:
        for f in FNS:
            assert f"pair:{gname}:{f}" in ctx.flags, (gname, f)
    assert ctx.counters.get("map-pairs:1-chromosome", 0) > 1000 and ctx.counters.get("map-pairs:2-chromosome", 0) > 100
    for f in ("labels:non-consecutive", "labels:consecutive", "labels:non-consecutive-boundary-in-query"):
        assert f in ctx.flags, f
    assert ctx.counters.get("row-orders-needing-sort", 0) > 1000
    assert ctx.counters.get("gdist2g-windows", 0) > 1000 and ctx.counters.get("gdist1g-windows", 0) > 100
    assert len(ctx.outcomes) > 500, len(ctx.outcomes)
    assert len(ctx.nontrivial) > 100


def replay(case, ctx):
    if case["layer"] == "fn":
        run_fn(ctx, case["fn"], case["seed"])
        return
    if case["layer"] == "pair":
        mcA = MapCase(case["cls"], "auto", [(int(c), int(x), float(g), i) for i, (c, x, g) in enumerate(case["rowsA"])], case["absent"])
        mcB = MapCase(case["cls"], "auto", [(int(c), int(x), float(g), i) for i, (c, x, g) in enumerate(case["rowsB"])], case["absent"])
        _run_pair(ctx, mcA, mcB, case)
        return
    rows = [(int(c), int(x), float(g), i) for i, (c, x, g) in enumerate(case["rows"])]
    mc = MapCase(case["cls"], case["mode"], rows, case["absent"])
    # position of every supplied row in the canonical order
    canon = {(r[0], r[1]): i for i, r in enumerate(mc.rows)}
    order = tuple(canon[(r[0], r[1])] for r in rows)
    ctx.guard(lambda: check_order(ctx, mc, order), case=mc.case(order, case.get("laws", False)), sig_prefix=case["cls"] + ":")
    if case.get("laws"):
        run_laws(ctx, mc)
