"""Reference model for C15 — values of breeding-value matrices under scaling.

Deliberately boring: a matrix is an ordered tuple of *taxa*; a taxon is a record
``(name, grp, raw, mag)`` where ``raw`` is a tuple with one entry per trait, each an
exact ``Fraction`` or ``None`` (missing), and ``mag`` is, per trait, the largest absolute raw value
ever present in that column along the history (same for every taxon of the matrix; it
only scales the rounding tolerance, see ``tol``).  Structural operations are list
edits; per-trait summaries are evaluated in ``Fraction`` arithmetic and rounded
once.  Nothing here imports numpy or the library.
"""
from __future__ import annotations
from fractions import Fraction
import math

NAN = float("nan")
EPS = 2.0 ** -52
TOL = 256 * EPS        # 5.7e-14, ALWAYS relative to the column magnitude, never an absolute floor: one rebuild
                       # (unscale -> re-centre -> re-scale) costs <= ~9 eps x column magnitude per cell, histories have
                       # <= 4 rebuilds plus one in the operand; a 1e-12-sized spread of a tiny column stays visible
SYMS = ("a", "z", "b", "L", "N")
TSYMS = ("z", "e", "f", "H", "G", "N")      # second alphabet: tiny magnitudes and an offset-plus-tiny pair


def alphabet(seed):
    """(a, z, b, L): 'some value', zero, 'another value', large offset; all exactly representable.  Variant 1 has
    two large values (small spread on a large offset), variant 2 a negative large offset.  VERIF_SEED only rotates
    these concrete numbers; the symbolic cases enumerated are the same for every seed."""
    return [(-1.0, 0.0, 2.0, 1e6 + 1), (-2.5, 0.0, 1e6 + 3, 1e6 + 1), (3.0, 0.0, -0.75, -2e5 + 0.5)][seed % 3]


def tiny_alphabet(seed):
    """(e, f, H, G): two tiny values (multiples of 2^-40 or so, ~1e-12) and a pair offset / offset + tiny whose
    standard deviation is < 1e-9 but far above the rounding level of the offset.  All exactly representable, and so
    are the means of up to 4 equal values: whether a trait is constant is decided exactly, never by a tolerance."""
    return [(2.0 ** -40, 3 * 2.0 ** -40, 1024.0, 1024.0 + 2.0 ** -30),
            (2.0 ** -38, 5 * 2.0 ** -38, 4096.0, 4096.0 + 2.0 ** -29),
            (-(2.0 ** -41), 2.0 ** -40, -512.0, -512.0 + 2.0 ** -31)][seed % 3]


def concrete(rows, seed):
    """nested lists of symbols -> nested lists of float | None"""
    a, z, b, L = alphabet(seed)
    e, f, H, G = tiny_alphabet(seed)
    m = {"a": a, "z": z, "b": b, "L": L, "N": None, "e": e, "f": f, "H": H, "G": G}

    def rec(x):
        return m[x] if isinstance(x, str) else [rec(y) for y in x]
    return rec(rows)


# ----------------------------------------------------------------------------
# entities
def frac(x):
    """float | int | None -> Fraction | None (NaN = missing)."""
    if x is None:
        return None
    if isinstance(x, float) and math.isnan(x):
        return None
    return Fraction(x)


def colmax(taxa, c):
    vals = [abs(tx[2][c]) for tx in taxa if tx[2][c] is not None]
    return float(max(vals)) if vals else 0.0


def settle(taxa):
    """Tolerance magnitude, per COLUMN: the largest absolute raw value that has ever been present in that column
    along the history of any of its cells (operands bring the history of their own column; |location| never exceeds
    it, explicit locations of hand-built operands are passed as extra magnitude in make()).  Every cell of a column
    carries the same magnitude, so a cell that joins a column holding rounding residue of a large-offset past is
    judged at that column's rounding level.  The magnitudes are part of the canonical state (see colmags)."""
    if not taxa:
        return tuple(taxa)
    t = len(taxa[0][2])
    cm = [max([colmax(taxa, c)] + [tx[3][c] for tx in taxa]) for c in range(t)]
    return tuple((tx[0], tx[1], tx[2], tuple(cm)) for tx in taxa)


def colmags(taxa):
    """per-column tolerance magnitudes (identical for all taxa after settle)"""
    return tuple(taxa[0][3]) if taxa else ()


def make(names, grps, rows, extra_mag=None):
    """rows: list of lists of float|None.  extra_mag: optional per-trait magnitudes (operands built with an
    explicit location/scale round in the context of |location| and |scale*mat| as well)."""
    t = len(rows[0])
    base = tuple(float(m) for m in (extra_mag or [0.0] * t))
    taxa = tuple((names[i], grps[i], tuple(frac(v) for v in rows[i]), base) for i in range(len(rows)))
    return settle(taxa)


def tol_cell(tx, c):
    return TOL * tx[3][c]


def tol_col(taxa, c):
    return TOL * max([0.0] + [tx[3][c] for tx in taxa])


def tol_ls(taxa, c):
    """tolerance for a stored location / scale (mean and standard deviation are 1-Lipschitz in the per-cell
    perturbations; numpy's own rounding of the mean is <= n eps x magnitude)"""
    return 2 * tol_col(taxa, c)


def raw_rows(taxa):
    """list of lists of float (NaN for missing)"""
    return [[NAN if v is None else float(v) for v in tx[2]] for tx in taxa]


# ----------------------------------------------------------------------------
# structural operations (documented semantics: numpy take / delete / insert / append on the taxa axis)
def select(taxa, indices):
    n = len(taxa)
    out = []
    for i in indices:
        if not -n <= i < n:
            raise IndexError(i)
        out.append(taxa[i])
    return tuple(out)


def decode_obj(obj, n):
    """int | ["s", start, stop, step] | [ints]  ->  set of positions"""
    if isinstance(obj, int):
        if not -n <= obj < n:
            raise IndexError(obj)
        return {obj % n}
    if len(obj) > 0 and obj[0] == "s":
        return set(range(*slice(obj[1], obj[2], obj[3]).indices(n)))
    s = set()
    for i in obj:
        if not -n <= i < n:
            raise IndexError(i)
        s.add(i % n)
    return s


def delete(taxa, obj):
    gone = decode_obj(obj, len(taxa))
    return tuple(tx for i, tx in enumerate(taxa) if i not in gone)


def insert(taxa, obj, new):
    """obj int: the block `new` goes in front of position obj (obj == n: at the end);
    obj list (len == len(new)): new[j] goes in front of the *original* position obj[j]; equal positions keep the
    given order (stable)."""
    n = len(taxa)
    if isinstance(obj, int):
        if not 0 <= obj <= n:
            raise IndexError(obj)
        return tuple(taxa[:obj]) + tuple(new) + tuple(taxa[obj:])
    if len(obj) != len(new):
        raise ValueError("positions / rows")
    pairs = sorted(zip(obj, range(len(new))), key=lambda p: p[0])      # stable
    out = []
    k = 0
    for i in range(n + 1):
        while k < len(pairs) and pairs[k][0] == i:
            out.append(new[pairs[k][1]])
            k += 1
        if i < n:
            out.append(taxa[i])
    if k != len(pairs):
        raise IndexError(obj)
    return tuple(out)


def adjoin(taxa, new):
    return tuple(taxa) + tuple(new)


def concat(parts):
    out = ()
    for p in parts:
        out += tuple(p)
    return out


def sort_order(taxa):
    """lexsort((taxa, taxa_grp)): primary key group, secondary key name, stable."""
    return sorted(range(len(taxa)), key=lambda i: (taxa[i][1], taxa[i][0]))


# ----------------------------------------------------------------------------
# per-trait summaries of the raw values, exact then rounded once
VALUE_FNS = ("tmax", "tmin", "tmean", "trange", "tstd", "tvar")
ARG_FNS = ("targmax", "targmin")


def _summ(vals):
    """vals: non-empty list of Fractions -> dict of floats"""
    n = len(vals)
    mx, mn = max(vals), min(vals)
    mean = sum(vals, Fraction(0)) / n
    var = sum(((v - mean) ** 2 for v in vals), Fraction(0)) / n
    return {"tmax": float(mx), "tmin": float(mn), "tmean": float(mean), "trange": float(mx - mn),
            "tvar": float(var), "tstd": math.sqrt(var) if var > 0 else 0.0}


def column_summary(taxa, c):
    """Acceptable answers per summary for trait c.

    Returns dict: value functions -> list of acceptable floats (NaN-free column: exactly one; a column with
    missing values: the NaN-propagating answer and the NaN-skipping answer — the property does not say which);
    arg functions -> set of acceptable indices (every index attaining the extreme; with missing values
    additionally the first missing position, which is what a NaN-propagating arg-extreme reports).
    Also 'constant' (all present values equal, at least one present), 'has_nan', 'all_nan', 'spread'."""
    col = [tx[2][c] for tx in taxa]
    present = [v for v in col if v is not None]
    has_nan = len(present) < len(col)
    out = {"has_nan": has_nan, "all_nan": not present,
           "constant": bool(present) and all(v == present[0] for v in present)}
    if present:
        s = _summ(present)
        amax = {i for i, v in enumerate(col) if v is not None and v == max(present)}
        amin = {i for i, v in enumerate(col) if v is not None and v == min(present)}
    else:
        s = {k: NAN for k in VALUE_FNS}
        amax = amin = set()
    if has_nan:
        first = next(i for i, v in enumerate(col) if v is None)
        for k in VALUE_FNS:
            out[k] = [NAN, s[k]]
        out["targmax"] = amax | {first}
        out["targmin"] = amin | {first}
    else:
        for k in VALUE_FNS:
            out[k] = [s[k]]
        out["targmax"] = amax
        out["targmin"] = amin
    out["mean"] = s["tmean"]          # NaN-skipping mean / std: what "centred and scaled per trait" refers to
    out["std"] = s["tstd"]
    out["var"] = s["tvar"]
    return out


def numerically_constant(cs, taxa, c):
    """exactly constant, or a spread that the rounding of the column's history may have wiped out (only then may an
    implementation legitimately see a constant trait where the exact raw values are not all equal)"""
    return cs["constant"] or (not cs["all_nan"] and cs["std"] <= tol_ls(taxa, c))


def summary_tol(fn, taxa, c, cs):
    t = tol_col(taxa, c)
    if fn in ("tmax", "tmin", "tmean"):
        return 2 * t
    if fn == "trange":
        return 4 * t
    ls = 2 * t
    if fn == "tstd":
        return ls
    std = 0.0 if math.isnan(cs["std"]) else cs["std"]
    var = 0.0 if math.isnan(cs["var"]) else cs["var"]
    return (2 * std + ls) * ls + 1e-12 * var          # tvar


# ----------------------------------------------------------------------------
# generic scaled matrix (DenseScaledMatrix): raw = scale * mat + location along the last axis
def nd_shape(x):
    s = []
    while isinstance(x, (list, tuple)):
        s.append(len(x))
        x = x[0] if len(x) else None
    return tuple(s)


def nd_flat_cols(x, t):
    """nested list (..., t) -> list of t columns, each the list of all entries with that last index
    (row-major order of the leading axes)"""
    cols = [[] for _ in range(t)]

    def rec(y):
        if isinstance(y[0], (list, tuple)):
            for z in y:
                rec(z)
        else:
            for j in range(t):
                cols[j].append(y[j])
    rec(x)
    return cols


def dsm_raw_cols(mat, loc, scale):
    """exact raw columns of a scaled matrix given as nested lists of floats"""
    t = nd_shape(mat)[-1]
    cols = nd_flat_cols(mat, t)
    return [[None if frac(v) is None else frac(scale[j]) * frac(v) + frac(loc[j]) for v in cols[j]] for j in range(t)]


def col_loc_scale(col):
    """(location, scale, constant) a re-standardisation must store for one column: NaN-skipping mean and
    population standard deviation, unit scale for a constant column; NaN if nothing is present."""
    present = [v for v in col if v is not None]
    if not present:
        return NAN, NAN, False
    s = _summ(present)
    const = all(v == present[0] for v in present)
    return s["tmean"], (1.0 if const else s["tstd"]), const
