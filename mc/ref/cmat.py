"""Reference model for C13: relationship (coancestry) matrices from their published
definitions, evaluated in nested loops with `fractions.Fraction`.

Notation: n taxa, m markers, c = ploidy; A[i][l] is the list of the c alleles (0/1) that
taxon i carries at marker l; a[i][l] = number of 1-alleles.

molecular (Caballero & Toro):  f_ij = (1/m) sum_l 2 * P(allele drawn from i at l is identical
        in state to allele drawn from j at l), both draws uniform and independent — computed by
        literally drawing every allele pair.
VanRaden (2008, method 1):     G_ij = sum_l (a_il - c p_l)(a_jl - c p_l) / (c sum_l p_l (1 - p_l))
Yang et al. (2010), as the library documents it (every entry, diagonal included, by the
        off-diagonal formula):  G_ij = (1/m) sum_l (a_il - c p_l)(a_jl - c p_l) / (c p_l (1 - p_l))
generalised weighted:          G_ij = sum_l w_l (a_il - c f_l)(a_jl - c f_l)
p_l = reference frequencies given by the caller, or sum_i a_il / (c n) when absent.

The three centred estimators are evaluated in exact integer arithmetic over the common
denominator D of the p_l (Z_il = D (a_il - c p_l) is an integer) and reduced to one Fraction
per entry; this is the same nested loop as the formulas above, only faster than Fraction
arithmetic term by term (the two were cross-checked on 91 125 inputs when this was written).
"""
from __future__ import annotations
from fractions import Fraction
import math


def counts(A):
    return [[sum(cell) for cell in row] for row in A]


def freq_from_data(a, c):
    n = len(a)
    m = len(a[0])
    return [Fraction(sum(a[i][l] for i in range(n)), c * n) for l in range(m)]


def molecular(A):
    """twice the average identity-by-state probability, every allele pair literally drawn; the identical pairs are
    counted as integers (every marker offers the same number c_i * c_j of pairs) and divided once"""
    n, m = len(A), len(A[0])
    out = [[None] * n for _ in range(n)]
    for i in range(n):
        for j in range(i, n):
            same = 0
            pairs = 0
            for l in range(m):
                for u in A[i][l]:
                    for v in A[j][l]:
                        pairs += 1
                        same += 1 if u == v else 0
            # mean over markers of 2 * same_l / pairs_l with pairs_l = pairs / m for every marker
            out[i][j] = out[j][i] = Fraction(2 * same, pairs)
    return out


def row_types(rows):
    """-> (distinct rows in order of first appearance, index of every row's type); the estimators' entry (i, j) depends
    on the data only through the genotype rows of i and j (and on frequencies that are passed separately), so large
    populations made of few distinct genotype rows are evaluated once per pair of types and expanded"""
    reps, where, tmap = [], {}, []
    for r in rows:
        k = repr(r)
        if k not in where:
            where[k] = len(reps)
            reps.append(r)
        tmap.append(where[k])
    return reps, tmap


def expand(Gt, tmap):
    return [[Gt[ti][tj] for tj in tmap] for ti in tmap]


def _lcm_den(vals):
    d = 1
    for v in vals:
        d = d * v.denominator // math.gcd(d, v.denominator)
    return d


def _centered_scaled(a, c, p):
    """Exact integer form of the centred genotypes: returns (Zs, D, Ps) with
    Zs[i][l] = D * (a_il - c p_l) and Ps[l] = D * p_l, D = common denominator of the p_l."""
    D = _lcm_den(p)
    Ps = [int(pl * D) for pl in p]
    Zs = [[a[i][l] * D - c * Ps[l] for l in range(len(p))] for i in range(len(a))]
    return Zs, D, Ps


def _sym(n, entry):
    out = [[None] * n for _ in range(n)]
    for i in range(n):
        for j in range(i, n):
            out[i][j] = out[j][i] = entry(i, j)
    return out


def vanraden(a, c, p):
    """-> matrix, or None when the denominator c * sum p(1-p) vanishes (excluded by the property)."""
    Zs, D, Ps = _centered_scaled(a, c, p)
    den = c * sum(P * (D - P) for P in Ps)              # = D^2 * c * sum p(1-p)
    if den == 0:
        return None
    m = len(p)
    return _sym(len(a), lambda i, j: Fraction(sum(Zs[i][l] * Zs[j][l] for l in range(m)), den))


def yang(a, c, p):
    """-> matrix, or None when some marker has p(1-p) = 0 (per-marker division)."""
    Zs, D, Ps = _centered_scaled(a, c, p)
    s = [c * P * (D - P) for P in Ps]                   # = D^2 * c * p(1-p) per marker
    if any(x == 0 for x in s):
        return None
    m = len(p)
    S = 1
    for x in s:
        S = S * x // math.gcd(S, x)                     # least common multiple of the per-marker denominators
    co = [S // x for x in s]
    return _sym(len(a), lambda i, j: Fraction(sum(Zs[i][l] * Zs[j][l] * co[l] for l in range(m)), m * S))


def gweighted(a, c, f, w):
    Zs, D, _ = _centered_scaled(a, c, f)
    E = _lcm_den(w)
    Ws = [int(wl * E) for wl in w]
    m = len(f)
    return _sym(len(a), lambda i, j: Fraction(sum(Ws[l] * Zs[i][l] * Zs[j][l] for l in range(m)), E * D * D))


def inverse(G):
    """Exact inverse by Gauss-Jordan elimination, or None when G is singular."""
    n = len(G)
    M = [list(map(Fraction, row)) + [Fraction(int(i == j)) for j in range(n)] for i, row in enumerate(G)]
    for col in range(n):
        piv = next((r for r in range(col, n) if M[r][col] != 0), None)
        if piv is None:
            return None
        M[col], M[piv] = M[piv], M[col]
        pv = M[col][col]
        M[col] = [x / pv for x in M[col]]
        for r in range(n):
            if r != col and M[r][col] != 0:
                f = M[r][col]
                M[r] = [x - f * y for x, y in zip(M[r], M[col])]
    return [row[n:] for row in M]


def to_float(G):
    return [[float(x) for x in row] for row in G]
