"""Reference model for C02: exact gamete / progeny distributions computed from the
*declared* crossover probabilities only (fractions.Fraction, no code shared with
the library).

A meiosis of a diploid individual (c0, c1) — two tuples of length m — walks left
to right.  For marker j let z_j in {0,1} say whether a crossover happens in front
of marker j; the declared model is: the z_j are independent, P(z_j = 1) = x_j
(x_0 is the probability of *starting* on copy 1).  The gamete carries, at marker
j, copy (z_0 xor ... xor z_j).

Pedigrees of the seven protocols are those of the class docstrings (see
mc/ref/mating.py): female gamete -> copy 0, male gamete -> copy 1.
"""
from __future__ import annotations
from fractions import Fraction
import itertools
import math


def F(x):
    return Fraction(float(x))


def pattern_law(x):
    """[(source-copy vector, probability)] for probabilities x (Fractions); zero-probability patterns dropped."""
    m = len(x)
    out = []
    for z in itertools.product((0, 1), repeat=m):
        pr = Fraction(1)
        for j in range(m):
            pr *= x[j] if z[j] else 1 - x[j]
        if pr:
            src, ph = [], 0
            for j in range(m):
                ph ^= z[j]
                src.append(ph)
            out.append((tuple(src), pr))
    return out


def crossover_law(x):
    """{z vector: probability} — the product law of the crossover indicators."""
    out = {}
    for z in itertools.product((0, 1), repeat=len(x)):
        pr = Fraction(1)
        for j, zj in enumerate(z):
            pr *= x[j] if zj else 1 - x[j]
        if pr:
            out[z] = pr
    return out


def recomb(x, i, j):
    """P(markers i<j come from different copies) under independence: (1 - prod_{k=i+1..j}(1-2x_k))/2."""
    pr = Fraction(1)
    for k in range(i + 1, j + 1):
        pr *= 1 - 2 * x[k]
    return (1 - pr) / 2


def haldane(d):
    return 0.5 * (1.0 - math.exp(-2.0 * d))


def kosambi(d):
    return 0.5 * math.tanh(2.0 * d)


# ---------------------------------------------------------------------------- distributions over individuals
def gametes(ind, law):
    out = {}
    c = ind
    for src, pr in law:
        g = tuple(c[s][j] for j, s in enumerate(src))
        out[g] = out.get(g, 0) + pr
    return out


def point(ind):
    return {ind: Fraction(1)}


def mate(dA, dB, law):
    """offspring (gamete of A -> copy 0, gamete of B -> copy 1), A and B independent."""
    out = {}
    for a, pa in dA.items():
        ga = gametes(a, law)
        for b, pb in dB.items():
            gb = gametes(b, law)
            for x, qx in ga.items():
                for y, qy in gb.items():
                    k = (x, y)
                    out[k] = out.get(k, 0) + pa * pb * qx * qy
    return out


def selfed(d, law):
    out = {}
    for a, pa in d.items():
        ga = gametes(a, law)
        for x, qx in ga.items():
            for y, qy in ga.items():
                k = (x, y)
                out[k] = out.get(k, 0) + pa * qx * qy
    return out


def dh(d, law):
    out = {}
    for a, pa in d.items():
        for x, qx in gametes(a, law).items():
            k = (x, x)
            out[k] = out.get(k, 0) + pa * qx
    return out


def progeny_dist(proto, parents, law, nself=0):
    """Distribution of ONE progeny of one cross.  `parents` = list of individuals in xconfig column order."""
    P = [point(p) for p in parents]
    if proto == "SelfCross":
        h = selfed(P[0], law)
    elif proto in ("TwoWayCross", "TwoWayDHCross"):
        h = mate(P[0], P[1], law)
    elif proto in ("ThreeWayCross", "ThreeWayDHCross"):
        f1 = mate(P[1], P[2], law)
        h = mate(P[0], f1, law)
    elif proto in ("FourWayCross", "FourWayDHCross"):
        ab = mate(P[2], P[3], law)
        cd = mate(P[0], P[1], law)
        h = mate(ab, cd, law)
    else:
        raise KeyError(proto)
    for _ in range(nself):
        h = selfed(h, law)
    if proto.endswith("DHCross"):
        h = dh(h, law)
    return h


def family_joint(proto, parents, law, nprogeny):
    """Joint distribution of the `nprogeny` progeny of ONE mating (nself = 0), as {tuple of individuals: prob}.
    Progeny of one mating share what the docstrings say they share: nothing (SelfCross, TwoWayCross, FourWayCross: every
    progeny has its own meioses ... for FourWayCross the two F1 are shared), the F1 (ThreeWayCross), the hybrid that is
    doubled (DH protocols)."""
    P = [point(p) for p in parents]

    def power(cond):   # cond: {shared ancestor: prob} -> joint of nprogeny conditionally independent children
        out = {}
        for anc, pa in cond.items():
            ch = child(anc)
            for combo in itertools.product(ch.items(), repeat=nprogeny):
                k = tuple(c[0] for c in combo)
                pr = pa
                for c in combo:
                    pr *= c[1]
                out[k] = out.get(k, 0) + pr
        return out

    if proto == "SelfCross":
        child = lambda anc: selfed(point(anc), law)
        return power(P[0])
    if proto == "TwoWayCross":
        one = mate(P[0], P[1], law)
        child = lambda anc: one
        return power({None: Fraction(1)})
    if proto == "TwoWayDHCross":
        child = lambda anc: dh(point(anc), law)
        return power(mate(P[0], P[1], law))
    if proto == "ThreeWayCross":
        child = lambda anc: mate(P[0], point(anc), law)
        return power(mate(P[1], P[2], law))
    if proto == "ThreeWayDHCross":
        f1 = mate(P[1], P[2], law)
        child = lambda anc: dh(point(anc), law)
        return power(mate(P[0], f1, law))
    raise KeyError(proto)
