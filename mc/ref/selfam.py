"""C05: one `Family` object per selection criterion — which classes implement it in which encoding, how a problem is
constructed directly from data, what the reference latent vector is, and which factory methods exist together with
the data a factory-built problem has to hold (computed by mc.ref.criteria from the raw population)."""
from __future__ import annotations
import importlib
import numpy

from .. import compat  # noqa: F401
from . import criteria as R
from .selfix import A, T, M

PKG = "pybrops.breed.prot.sel.prob."
ENCS = ("subset", "integer", "binary", "real")


def load(module, name):
    return getattr(importlib.import_module(PKG + module), name)


def four(prefix, suffix="SelectionProblem"):
    return {"subset": f"{prefix}Subset{suffix}", "integer": f"{prefix}Integer{suffix}",
            "binary": f"{prefix}Binary{suffix}", "real": f"{prefix}Real{suffix}"}


class Exp:
    """Expected value of one data attribute of a factory-built problem."""
    def __init__(self, attr, value, how="close"):
        self.attr, self.value, self.how = attr, value, how


class Family:
    name = module = None
    classes = {}
    kind = "contrib"          # "contrib": latent depends on the contribution vector; "set": on the member multiset
    def ctor_options(self, tier):
        return [{}]
    def factories(self, enc, tier):
        return []


def _cmatfcty(which):
    if which == "molecular":
        from pybrops.popgen.cmat.fcty.DenseMolecularCoancestryMatrixFactory import DenseMolecularCoancestryMatrixFactory as F
    elif which == "vanraden":
        from pybrops.popgen.cmat.fcty.DenseVanRadenCoancestryMatrixFactory import DenseVanRadenCoancestryMatrixFactory as F
    else:
        from pybrops.popgen.cmat.fcty.DenseGeneralizedWeightedCoancestryMatrixFactory import DenseGeneralizedWeightedCoancestryMatrixFactory as F
    return F()


def chol_upper(K):
    """Upper factor C with C'C = K (numpy's Cholesky is trusted linear algebra; the identity is asserted)."""
    Kf = A([[float(v) for v in r] for r in K])
    C = numpy.linalg.cholesky(Kf).T.copy()
    assert numpy.allclose(C.T @ C, Kf, rtol=1e-12, atol=1e-14)
    return C


# ======================================================================================================
class ValueFamily(Family):
    """latent = -(contribution-weighted mean of a per-candidate value matrix)."""
    kw = attr = None

    def space(self, fx, opt):
        return fx.n

    def data(self, fx, opt):
        return {"values": fx.bv, "N": fx.n}

    def ctor_kwargs(self, d, enc):
        return {self.kw: A(d["values"])}

    def nlatent(self, d):
        return len(d["values"][0])

    def ref(self, d, c=None, members=None):
        return R.lat_mean_value(c, d["values"])


def _bvmat_factory(self, cls, fx, opt, common, kw):
    exp = R.unscaled(fx.bv, fx.loc, fx.scale) if opt["unscale"] else fx.bv
    prob = cls.from_bvmat(bvmat=fx.bvmat(), unscale=opt["unscale"], **common)
    return prob, [Exp(self.attr, exp)], {"values": exp, "N": fx.n}


class EBV(ValueFamily):
    name, module, kw, attr = "EBV", "EstimatedBreedingValueSelectionProblem", "ebv", "ebv"
    classes = four("EstimatedBreedingValue")

    def factories(self, enc, tier):
        return [("from_bvmat", {"unscale": True}), ("from_bvmat", {"unscale": False})]

    def build_factory(self, cls, enc, fx, fac, opt, common):
        return _bvmat_factory(self, cls, fx, opt, common, "ebv")


class GEBV(ValueFamily):
    name, module, kw, attr = "GEBV", "GenomicEstimatedBreedingValueSelectionProblem", "gebv", "gebv"
    classes = four("GenomicEstimatedBreedingValue")

    def factories(self, enc, tier):
        out = [("from_bvmat", {"unscale": True}), ("from_bvmat", {"unscale": False})]
        for ph in (True, False):
            for un in (True, False):
                out.append(("from_gmat_gpmod", {"phased": ph, "unscale": un}))
        return out

    def build_factory(self, cls, enc, fx, fac, opt, common):
        if fac == "from_bvmat":
            return _bvmat_factory(self, cls, fx, opt, common, "gebv")
        raw = R.gebv(fx.counts, fx.u, fx.beta)
        exp = raw if opt["unscale"] else R.standardize(raw)
        gm = fx.pgmat() if opt["phased"] else fx.gmat()
        prob = cls.from_gmat_gpmod(gmat=gm, gpmod=fx.gpmod(), unscale=opt["unscale"], **common)
        return prob, [Exp("gebv", exp)], {"values": exp, "N": fx.n}


class GWGEBV(ValueFamily):
    name, module, kw, attr = "gwGEBV", "GeneralizedWeightedGenomicEstimatedBreedingValueSelectionProblem", "gwgebv", "gwgebv"
    classes = four("GeneralizedWeightedGenomicEstimatedBreedingValue")
    weighted_only = False

    def factories(self, enc, tier):
        alphas = (0.5,) if self.weighted_only else (0.0, 0.5, 1.0)
        out = []
        for a in alphas:
            out.append(("from_numpy", {"alpha": a}))
            for ph in (True, False):
                out.append(("from_gmat_algpmod", {"alpha": a, "phased": ph}))
        return out

    def build_factory(self, cls, enc, fx, fac, opt, common):
        # the plain weighted criterion divides by sqrt(favourable allele frequency): only defined where every
        # frequency is positive -> effects without zeros, and the case is skipped if a favourable allele is absent
        u = fx.u_nz if self.weighted_only else fx.u
        fa = R.fav_allele_freq(fx.counts, 2, u)
        if self.weighted_only and any(f == 0 for r in fa for f in r):
            return None, "favourable-allele-absent", None
        exp = R.gwgebv(fx.counts, u, fa, opt["alpha"])
        extra = {} if self.weighted_only else {"alpha": opt["alpha"]}
        if fac == "from_numpy":
            prob = cls.from_numpy(Z_a=fx.arg("Z_a", A(fx.counts)), u_a=fx.arg("u_a", A(u)),
                                  fafreq=fx.arg("fafreq", A([[float(f) for f in r] for r in fa])), **extra, **common)
        else:
            gm = fx.pgmat() if opt["phased"] else fx.gmat()
            prob = cls.from_gmat_algpmod(gmat=gm, algpmod=fx.gpmod(u), **extra, **common)
        return prob, [Exp("gwgebv", exp)], {"values": exp, "N": fx.n}


class WGEBV(GWGEBV):
    name, module, kw, attr = "wGEBV", "WeightedGenomicSelectionProblem", "wgebv", "gwgebv"
    classes = four("WeightedGenomic")
    weighted_only = True


class RANDOM(ValueFamily):
    name, module, kw, attr = "Random", "RandomSelectionProblem", "rbv", "rbv"
    classes = four("Random")

    def factories(self, enc, tier):
        return [("from_object", {})]

    def build_factory(self, cls, enc, fx, fac, opt, common):
        """The random breeding values are the environment's answer: the module's generator is replaced by a scripted
        one that hands out a provenance matrix and records what was asked for."""
        from ..env import ScriptedRandomState
        mod = importlib.import_module(PKG + self.module)
        answer = A(fx.value_matrix(fx.n, salt=3))
        asked = []

        class H:
            def multivariate_normal(self, gen, mean, cov, size):
                asked.append((numpy.array(mean).tolist(), numpy.array(cov).tolist(),
                              tuple(size) if not isinstance(size, int) else (size,)))
                return answer.copy()
        old = mod.global_prng
        mod.global_prng = ScriptedRandomState(H())
        try:
            prob = cls.from_object(ntaxa=fx.n, ntrait=T, **common)
        finally:
            mod.global_prng = old
        ok = asked == [([0.0] * T, numpy.identity(T).tolist(), (fx.n,))]
        return prob, [Exp("rbv", answer.tolist()), Exp("__asked__", (ok, asked), "flag")], {"values": answer.tolist(), "N": fx.n}


# ======================================================================================================
class MateValueFamily(ValueFamily):
    """Value matrix per *cross*; decisions range over the rows of the cross map."""
    def ctor_options(self, tier):
        return [{"unique": True}, {"unique": False}] if tier == "thorough" else [{"unique": True}]

    def space(self, fx, opt):
        return len(R.cross_map(fx.n, 2, opt.get("unique", True)))

    def data(self, fx, opt):
        xm = R.cross_map(fx.n, 2, opt.get("unique", True))
        return {"values": fx.value_matrix(len(xm), salt=len(self.name)), "N": len(xm), "xmap": xm}

    def ctor_kwargs(self, d, enc):
        return {self.kw: A(d["values"]), "decn_space_xmap": A(d["xmap"], "int64")}


def _xmap_rows(prob):
    return [tuple(int(v) for v in r) for r in numpy.asarray(prob.decn_space_xmap).tolist()]


class UC(MateValueFamily):
    name, module, kw, attr = "UC", "UsefulnessCriterionSelectionProblem", "ucmat", "ucmat"
    classes = four("UsefulnessCriterion", "MateSelectionProblem")

    def factories(self, enc, tier):
        out = [("from_pgmat_gpmod", {"nparent": 2, "unique": True, "pct": 0.1, "nself": 0}),
               ("from_pgmat_gpmod", {"nparent": 2, "unique": False, "pct": 0.25, "nself": 0}),
               ("from_pgmat_gpmod_xmap", {"nparent": 2, "xmap": "reversed", "pct": 0.1, "nself": 0}),
               ("from_pgmat_gpmod", {"nparent": 3, "unique": True, "pct": 0.1, "nself": 0})]
        if tier == "thorough":
            out += [("from_pgmat_gpmod", {"nparent": 2, "unique": True, "pct": 0.5, "nself": 1}),
                    ("from_pgmat_gpmod_xmap", {"nparent": 3, "xmap": "reversed", "pct": 0.25, "nself": 0})]
        return out

    def build_factory(self, cls, enc, fx, fac, opt, common):
        from pybrops.popgen.gmap.HaldaneMapFunction import HaldaneMapFunction
        if opt["nparent"] == 2:
            from pybrops.model.vmat.fcty.DenseTwoWayDHAdditiveGeneticVarianceMatrixFactory import DenseTwoWayDHAdditiveGeneticVarianceMatrixFactory as VF
            epgc = (0.5, 0.5)
        else:
            from pybrops.model.vmat.fcty.DenseThreeWayDHAdditiveGeneticVarianceMatrixFactory import DenseThreeWayDHAdditiveGeneticVarianceMatrixFactory as VF
            epgc = (0.5, 0.25, 0.25)
        pg, gp, gmapfn = fx.pgmat(), fx.gpmod(), HaldaneMapFunction()
        args = dict(nparent=opt["nparent"], ncross=1, nprogeny=10, nself=opt["nself"], upper_percentile=opt["pct"],
                    vmatfcty=VF(), gmapfn=gmapfn, unique_parents=opt.get("unique", True), pgmat=pg, gpmod=gp)
        if fac == "from_pgmat_gpmod_xmap":
            # a user supplied cross map: reversed order, parents listed high-to-low (ordered crosses)
            want = [tuple(reversed(r)) for r in reversed(R.cross_map(fx.n, opt["nparent"], True))]
            args["xmap"] = fx.arg("xmap", A(want, "int64"))
        prob = getattr(cls, fac)(**args, **common)
        rows = _xmap_rows(prob)
        if fac == "from_pgmat_gpmod_xmap":
            xm_ok = rows == want
        else:
            xm_ok = sorted(rows) == sorted(R.cross_map(fx.n, opt["nparent"], opt["unique"]))
        # variances are the population's progeny variances as produced by the variance factory (property C12);
        # here only their use matters: the entry of *this* cross, of *this* trait
        vm = VF().from_gmod(gmod=fx.gpmod(), pgmat=fx.pgmat(), ncross=1, nprogeny=10, nself=opt["nself"], gmapfn=gmapfn).mat
        bv = R.gebv(fx.counts, fx.u, fx.beta)
        inten = R.selection_intensity(opt["pct"])
        exp = [R.usefulness(bv, r, epgc, [float(vm[tuple(r) + (t,)]) for t in range(T)], inten) for r in rows]
        return prob, [Exp("decn_space_xmap", (xm_ok, rows), "flag"), Exp("ucmat", exp)], {"values": exp, "N": len(rows), "xmap": rows}


class OHV(MateValueFamily):
    name, module, kw, attr = "OHV", "OptimalHaploidValueSelectionProblem", "ohvmat", "ohvmat"
    classes = four("OptimalHaploidValue")

    def factories(self, enc, tier):
        out = []
        for lay, nb in (("2x2", 2), ("2x2", 4), ("1x4", 1), ("1x4", 2), ("1x4", 4)):
            for npar, uniq in ((2, True), (2, False), (3, True)):
                if tier == "thorough" or (lay, nb, npar, uniq) in (("2x2", 2, 2, True), ("2x2", 4, 2, False), ("1x4", 2, 3, True), ("1x4", 1, 2, True), ("1x4", 4, 2, True)):
                    out.append(("from_pgmat_gpmod", {"layout": lay, "nhaploblk": nb, "nparent": npar, "unique": uniq}))
        return out

    def build_factory(self, cls, enc, fx, fac, opt, common):
        prob = cls.from_pgmat_gpmod(nparent=opt["nparent"], nhaploblk=opt["nhaploblk"], unique_parents=opt["unique"],
                                    pgmat=fx.pgmat(), gpmod=fx.gpmod(), **common)
        rows = _xmap_rows(prob)
        xm_ok = sorted(rows) == sorted(R.cross_map(fx.n, opt["nparent"], opt["unique"]))
        hv = R.block_values(fx.phased, fx.u, fx.blocks(opt["nhaploblk"]))
        exp = [[float(v) for v in R.ohv_of_cross(hv, r)] for r in rows]
        return prob, [Exp("decn_space_xmap", (xm_ok, rows), "flag"), Exp("ohvmat", exp)], {"values": exp, "N": len(rows), "xmap": rows}


class EMBV(MateValueFamily):
    name, module, kw, attr = "EMBV", "ExpectedMaximumBreedingValueSelectionProblem", "embv", "embv"
    classes = four("ExpectedMaximumBreedingValue")
    # factory handled by the check itself (scripted generator, see c05.embv_factory)

    def factories(self, enc, tier):
        return [("from_pgmat_gpmod", {"scripted": True})]


# ======================================================================================================
class KinFamily(Family):
    """Criteria on a kinship factor C (K = C'C)."""
    def valid(self, fx, opt):
        d = self.data(fx, opt)
        Ks = d["Ks"] if "Ks" in d else [d["K"]]
        return all(R.is_clearly_pd(K) for K in Ks)

    def space(self, fx, opt):
        return fx.n

    def kin(self, fx, opt):
        return fx.kgen if opt.get("K", "generic") == "generic" else R.kin_molecular(fx.counts)

    def ctor_options(self, tier):
        return [{"K": "generic"}, {"K": "molecular"}]

    def cmat_options(self, tier):
        return ["molecular", "vanraden-jitter"] if tier == "thorough" else ["molecular", "vanraden-jitter"]

    def expected_kin(self, fx, which):
        if which == "molecular":
            K = R.kin_molecular(fx.counts)
            return (K, "chol") if R.is_clearly_pd(K) else (None, "molecular-kinship-not-positive-definite")
        return R.kin_vanraden(fx.counts), "chol-jitter"


class OCS(KinFamily):
    name, module = "OCS", "OptimalContributionSelectionProblem"
    classes = four("OptimalContribution")

    def data(self, fx, opt):
        return {"K": self.kin(fx, opt), "bv": fx.bv, "N": fx.n}

    def ctor_kwargs(self, d, enc):
        return {"ebv": A(d["bv"]), "C": chol_upper(d["K"])}

    def nlatent(self, d):
        return 1 + len(d["bv"][0])

    def ref(self, d, c=None, members=None):
        return R.lat_ocs(c, d["K"], d["bv"])

    def factories(self, enc, tier):
        return [("from_bvmat_gmat", {"cmat": cm, "unscale": un, "phased": ph})
                for cm in self.cmat_options(tier) for un in (True, False) for ph in (True, False)]

    def build_factory(self, cls, enc, fx, fac, opt, common):
        which = opt["cmat"].split("-")[0]
        K, how = self.expected_kin(fx, which)
        if K is None:
            return None, how, None
        bv = R.unscaled(fx.bv, fx.loc, fx.scale) if opt["unscale"] else fx.bv
        numpy.random.seed(20240 + fx.n)       # only the jitter path draws (uniform jitter on a singular matrix)
        prob = cls.from_bvmat_gmat(bvmat=fx.bvmat(), gmat=fx.pgmat() if opt["phased"] else fx.gmat(),
                                   cmatfcty=_cmatfcty(which), unscale=opt["unscale"], **common)
        return prob, [Exp("ebv", bv), Exp("C", K, how)], ({"K": K, "bv": bv, "N": fx.n} if how == "chol" else None)


class MGR(KinFamily):
    name, module = "MGR", "MeanGenomicRelationshipSelectionProblem"
    classes = four("MeanGenomicRelationship")

    def data(self, fx, opt):
        return {"K": self.kin(fx, opt), "N": fx.n}

    def ctor_kwargs(self, d, enc):
        return {"C": chol_upper(d["K"])}

    def nlatent(self, d):
        return 1

    def ref(self, d, c=None, members=None):
        return R.lat_mgr(c, d["K"])

    def factories(self, enc, tier):
        return [("from_gmat", {"cmat": cm, "phased": ph}) for cm in self.cmat_options(tier) for ph in (True, False)]

    def build_factory(self, cls, enc, fx, fac, opt, common):
        which = opt["cmat"].split("-")[0]
        K, how = self.expected_kin(fx, which)
        if K is None:
            return None, how, None
        numpy.random.seed(20240 + fx.n)
        prob = cls.from_gmat(gmat=fx.pgmat() if opt["phased"] else fx.gmat(), cmatfcty=_cmatfcty(which), **common)
        return prob, [Exp("C", K, how)], ({"K": K, "N": fx.n} if how == "chol" else None)


class MEH(MGR):
    name, module = "MEH", "MeanExpectedHeterozygositySelectionProblem"
    classes = four("MeanExpectedHeterozygosity")

    def ref(self, d, c=None, members=None):
        return R.lat_meh(c, d["K"])


class L2(KinFamily):
    name, module = "L2", "L2NormGenomicSelectionProblem"
    classes = four("L2NormGenomic")

    def ctor_options(self, tier):
        return [{}]

    def _targets(self, fx):
        # per-trait marker weights (positive) and target frequencies away from the population's own frequencies
        w = [[abs(v) + 0.25 for v in r] for r in fx.u]
        tg = [[0.5, 0.25], [0.25, 0.75], [0.75, 0.5], [0.5, 0.0]]
        return w, tg

    def _Ks(self, fx):
        w, tg = self._targets(fx)
        return [R.kin_weighted(fx.counts, 2, [w[l][t] for l in range(M)], [tg[l][t] for l in range(M)]) for t in range(T)]

    def data(self, fx, opt):
        Ks = [fx.kgen, R.kin_molecular(fx.counts)]
        return {"Ks": Ks, "N": fx.n}

    def ctor_kwargs(self, d, enc):
        return {"C": numpy.stack([chol_upper(K) for K in d["Ks"]])}

    def nlatent(self, d):
        return len(d["Ks"])

    def ref(self, d, c=None, members=None):
        return R.lat_l2(c, d["Ks"])

    def factories(self, enc, tier):
        return [("from_gmat", {"phased": True}), ("from_gmat", {"phased": False})]

    def build_factory(self, cls, enc, fx, fac, opt, common):
        Ks = self._Ks(fx)
        if not all(R.is_clearly_pd(K) for K in Ks):
            return None, "weighted-relationship-not-positive-definite", None
        w, tg = self._targets(fx)
        prob = cls.from_gmat(gmat=fx.pgmat() if opt["phased"] else fx.gmat(), cmatfcty=_cmatfcty("weighted"),
                             mkrwt=fx.arg("mkrwt", A(w)), afreq=fx.arg("afreq", A(tg)), **common)
        return prob, [Exp("C", Ks, "chol3")], {"Ks": Ks, "N": fx.n}


# ======================================================================================================
class L1(Family):
    name, module = "L1", "L1NormGenomicSelectionProblem"
    classes = four("L1NormGenomic")

    def space(self, fx, opt):
        return fx.n

    def data(self, fx, opt):
        return {"mkrwt": fx.mkrwt, "tafreq": R.tafreq(fx.counts, 2), "tfreq": fx.tfreq, "N": fx.n}

    def V(self, d):
        n, p, t = len(d["tafreq"]), len(d["mkrwt"]), len(d["mkrwt"][0])
        return [[[float(R.F(d["mkrwt"][l][tt]) * (R.F(d["tafreq"][i][l]) - R.F(d["tfreq"][l][tt]))) for i in range(n)]
                 for l in range(p)] for tt in range(t)]

    def ctor_kwargs(self, d, enc):
        return {"V": A(self.V(d))}

    def nlatent(self, d):
        return len(d["mkrwt"][0])

    def ref(self, d, c=None, members=None):
        return R.lat_l1(c, d["mkrwt"], d["tafreq"], d["tfreq"])

    def factories(self, enc, tier):
        return [("from_numpy", {})]

    def build_factory(self, cls, enc, fx, fac, opt, common):
        d = self.data(fx, {})
        prob = cls.from_numpy(mkrwt=fx.arg("mkrwt", A(d["mkrwt"])), tafreq=fx.arg("tafreq", A([[float(v) for v in r] for r in d["tafreq"]])),
                              tfreq=fx.arg("tfreq", A(d["tfreq"])), **common)
        return prob, [Exp("V", self.V(d))], d


class FAMILY(Family):
    name, module = "FamilyEBV", "FamilyEstimatedBreedingValueSelectionProblem"
    classes = four("FamilyEstimatedBreedingValue")

    def space(self, fx, opt):
        return fx.n

    def data(self, fx, opt):
        return {"bv": fx.bv, "fam": fx.grp, "N": fx.n}

    def ctor_kwargs(self, d, enc):
        return {"ebv": A(d["bv"]), "familyid": A(d["fam"], "int64")}

    def nlatent(self, d):
        return len(d["bv"][0]) + len(set(d["fam"]))

    def ref(self, d, c=None, members=None):
        return R.lat_family(c, d["bv"], d["fam"])

    def factories(self, enc, tier):
        return [("from_bvmat", {})]

    def build_factory(self, cls, enc, fx, fac, opt, common):
        prob = cls.from_bvmat(bvmat=fx.bvmat(), **common)
        return prob, [Exp("ebv", fx.bv), Exp("familyid", fx.grp, "exact")], self.data(fx, {})


# ======================================================================================================
class HaploFamily(Family):
    kind = "set"

    def space(self, fx, opt):
        return fx.n

    def ctor_options(self, tier):
        return [{"layout": "2x2", "nhaploblk": 2}, {"layout": "1x4", "nhaploblk": 4}]

    def data(self, fx, opt):
        hv = R.block_values(fx.phased, fx.u, fx.blocks(opt["nhaploblk"]))
        return {"hv": hv, "N": fx.n}

    def hvarr(self, d):
        return A([[[[float(v) for v in b] for b in i] for i in ph] for ph in d["hv"]])

    def nlatent(self, d):
        return T

    def hap_factories(self, tier):
        full = [("2x2", 2), ("2x2", 4), ("1x4", 1), ("1x4", 2), ("1x4", 4)]
        return full if tier == "thorough" else [("2x2", 2), ("1x4", 4), ("1x4", 2)]


class OPV(HaploFamily):
    name, module = "OPV", "OptimalPopulationValueSelectionProblem"
    classes = {"subset": "OptimalPopulationValueSubsetSelectionProblem"}

    def ctor_kwargs(self, d, enc):
        return {"haplomat": self.hvarr(d)}

    def ref(self, d, c=None, members=None):
        return R.lat_opv(d["hv"], members)

    def factories(self, enc, tier):
        return [("from_pgmat_gpmod", {"layout": lay, "nhaploblk": nb}) for lay, nb in self.hap_factories(tier)]

    def build_factory(self, cls, enc, fx, fac, opt, common):
        d = self.data(fx, opt)
        prob = cls.from_pgmat_gpmod(nhaploblk=opt["nhaploblk"], pgmat=fx.pgmat(), gpmod=fx.gpmod(), **common)
        return prob, [Exp("haplomat", self.hvarr(d).tolist())], d


class GB(HaploFamily):
    name, module = "GenotypeBuilder", "GenotypeBuilderSelectionProblem"
    classes = {"subset": "GenotypeBuilderSubsetSelectionProblem"}

    def ctor_options(self, tier):
        return [{"layout": "2x2", "nhaploblk": 2, "nbest": 1}, {"layout": "1x4", "nhaploblk": 4, "nbest": 2}]

    def data(self, fx, opt):
        d = HaploFamily.data(self, fx, opt)
        d["nbest"] = opt["nbest"]
        return d

    def kmin(self, d):
        return d["nbest"]        # the nbest best founders are taken among the k selected: k >= nbest

    def ctor_kwargs(self, d, enc):
        return {"haplomat": self.hvarr(d), "nbestfndr": d["nbest"]}

    def ref(self, d, c=None, members=None):
        return R.lat_gb(d["hv"], members, d["nbest"])

    def factories(self, enc, tier):
        return [("from_pgmat_gpmod", {"layout": lay, "nhaploblk": nb, "nbest": 1 + (i % 2)})
                for i, (lay, nb) in enumerate(self.hap_factories(tier))]

    def build_factory(self, cls, enc, fx, fac, opt, common):
        d = self.data(fx, opt)
        prob = cls.from_pgmat_gpmod(pgmat=fx.pgmat(), gpmod=fx.gpmod(), nhaploblk=opt["nhaploblk"], nbestfndr=opt["nbest"], **common)
        return prob, [Exp("haplomat", self.hvarr(d).tolist()), Exp("nbestfndr", opt["nbest"], "exact")], d


class AlleleFamily(Family):
    kind = "set"
    fn = None

    def space(self, fx, opt):
        return fx.n

    def data(self, fx, opt):
        return {"geno": fx.counts, "ploidy": 2, "mkrwt": fx.mkrwt, "tfreq": fx.tfreq, "N": fx.n}

    def ctor_kwargs(self, d, enc):
        return {"geno": A(d["geno"], "int8"), "ploidy": 2, "mkrwt": A(d["mkrwt"]), "tfreq": A(d["tfreq"])}

    def nlatent(self, d):
        return len(self.ref(d, members=[0]))

    def ref(self, d, c=None, members=None):
        return type(self).fn(d["geno"], d["ploidy"], d["mkrwt"], d["tfreq"], members)

    def factories(self, enc, tier):
        return [("from_gmat_gpmod", {"phased": ph, "callable": cb}) for ph in (True, False) for cb in (False, True)]

    def build_factory(self, cls, enc, fx, fac, opt, common):
        d = self.data(fx, {})
        if opt["callable"]:
            # user callables deriving the weights / targets from the model's marker effects
            weight = lambda u_a: numpy.absolute(u_a)
            target = lambda u_a: (u_a > 0.0).astype(float)
            d = dict(d, tfreq=[[1.0 if v > 0 else 0.0 for v in r] for r in fx.u])
        else:
            weight, target = fx.arg("weight", A(d["mkrwt"])), fx.arg("target", A(d["tfreq"]))
        prob = cls.from_gmat_gpmod(gmat=fx.pgmat() if opt["phased"] else fx.gmat(), weight=weight, target=target,
                                   gpmod=fx.gpmod(), **common)
        return prob, [Exp("geno", d["geno"], "exact"), Exp("ploidy", 2, "exact"), Exp("mkrwt", d["mkrwt"]), Exp("tfreq", d["tfreq"])], d


class PAFD(AlleleFamily):
    name, module, fn = "PAFD", "PopulationAlleleFrequencyDistanceSelectionProblem", staticmethod(R.lat_pafd)
    classes = {"subset": "PopulationAlleleFrequencyDistanceSubsetSelectionProblem"}


class PAU(AlleleFamily):
    name, module, fn = "PAU", "PopulationAlleleUnavailabilitySelectionProblem", staticmethod(R.lat_pau)
    classes = {"subset": "PopulationAlleleUnavailabilitySubsetSelectionProblem"}


class MOGS(AlleleFamily):
    name, module, fn = "MOGS", "MultiObjectiveGenomicSelectionProblem", staticmethod(R.lat_mogs)
    classes = {"subset": "MultiObjectiveGenomicSubsetSelectionProblem"}


FAMILIES = [EBV(), GEBV(), GWGEBV(), WGEBV(), RANDOM(), OCS(), MGR(), MEH(), L1(), L2(), FAMILY(), UC(), OHV(), EMBV(),
            OPV(), GB(), PAFD(), PAU(), MOGS()]
BY_NAME = {f.name: f for f in FAMILIES}

# classes that exist in the package but are deliberately not driven, with the reason (reported in the evidence)
NOT_DRIVEN = {
    "MultiObjectiveGenomicSubsetMatingProblem": "declared 'STILL UNDER CONSTRUCTION' by the library: latentfn raises unconditionally",
    "RealLookAheadGeneralizedWeightedGenomicSelectionProblem": "decision vector is a schedule of exponents, not a contribution encoding; "
                                                               "criterion is a multi-generation simulation (outside the property's list); its latentfn still calls the "
                                                               "old mate(pgmat, sel, ncross, nprogeny) API with a 1-D selection and raises ValueError with every current MatingProtocol",
}
