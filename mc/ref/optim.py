"""Fixtures and reference model for C06 (optimisers).

* table-driven tiny problems for the four decision encodings, rebuilt from a JSON-able spec
  (so a replay artefact carries the whole problem);
* the boring reference side: subset validity, brute force over all C(n,k) subsets, the complete
  1-exchange neighbourhood, O(n^2) constrained Pareto dominance, a field-by-field problem snapshot;
* scripted replacements for the module-level ``numpy.random.*`` functions the pymoo add-on operators
  call (every draw is a choice point of an mc.explore.Chooser; a draw nobody scripted is an error).

Shares no code with pybrops.opt.algo.
"""
from __future__ import annotations
import contextlib
import itertools
import numpy

from .. import compat  # noqa: F401
from ..core import canon, digest
from ..env import UnscriptedDraw, TWO53, shape_of

from pybrops.opt.prob.SubsetProblem import SubsetProblem
from pybrops.opt.prob.RealProblem import RealProblem
from pybrops.opt.prob.IntegerProblem import IntegerProblem
from pybrops.opt.prob.BinaryProblem import BinaryProblem


# ----------------------------------------------------------------------------
# problems
class NonTermination(Exception):
    """the optimiser exceeded the evaluation budget that bounds any strictly improving search"""


class _TableSubset(SubsetProblem):
    """obj_j(x) = w_j * ( sum_a posw_j[a] * s_j[x_a] + sum_{a<b} pair_j[x_a][x_b] + sum_a opair_j[x_a][x_{a+1}] );
    ineqcv_i(x) = w * max(0, sum_a pw_i[a] * cw_i[x_a] - cap_i);  eqcv_i(x) = w * |sum_a pw_i[a] * ew_i[x_a] - target_i|.
    posw / pw default to 1 (order-symmetric); `posw`, `opair` (a NON-symmetric table read over consecutive positions, like
    (female, male) pairs) and `pw` make the value depend on the ORDER of the decision vector.
    Defined for index vectors of any length (the sorting optimisers evaluate single members)."""

    def __init__(self, spec):
        cand = numpy.array(spec["cand"], dtype="int64")
        self._retable(spec)
        self.n_evalfn = 0
        self.limit = None
        super().__init__(
            ndecn=spec["k"], decn_space=cand, decn_space_lower=int(cand.min()), decn_space_upper=int(cand.max()),
            nobj=len(self._t_obj), obj_wt=numpy.array(spec.get("obj_wt", [1.0] * len(self._t_obj)), dtype=float),
            nineqcv=len(self._t_ineq), ineqcv_wt=numpy.array(spec.get("ineq_wt", [1.0] * len(self._t_ineq)), dtype=float),
            neqcv=len(self._t_eq), eqcv_wt=numpy.array(spec.get("eq_wt", [1.0] * len(self._t_eq)), dtype=float))

    def _retable(self, spec):
        """the fixture's private objective data (NOT a library attribute)"""
        self._t_pos = {int(c): i for i, c in enumerate(spec["cand"])}
        self._t_obj = [(list(map(float, o["s"])), o.get("pair"), o.get("posw"), o.get("opair")) for o in spec["obj"]]
        self._t_ineq = [(list(map(float, c["w"])), float(c["cap"]), c.get("pw"), bool(c.get("signed"))) for c in spec.get("ineq", [])]
        self._t_eq = [(list(map(float, c["w"])), float(c["target"]), c.get("pw"), c.get("scale")) for c in spec.get("eq", [])]

    def evalfn(self, x, *args, **kwargs):
        self.n_evalfn += 1
        if self.limit is not None and self.n_evalfn > self.limit:
            raise NonTermination(f"more than {self.limit} objective evaluations in one minimize() call")
        pos = self._t_pos
        ix = [pos[int(v)] for v in x]
        m = len(ix)
        obj = numpy.empty(len(self._t_obj))
        for j, (s, pair, posw, opair) in enumerate(self._t_obj):
            t = 0.0
            if posw is None:
                for i in ix:
                    t += s[i]
            else:
                for a in range(m):
                    t += posw[a % len(posw)] * s[ix[a]]
            if pair is not None:
                for a in range(m):
                    ra = pair[ix[a]]
                    for b in range(a + 1, m):
                        t += ra[ix[b]]
            if opair is not None:
                for a in range(m - 1):
                    t += opair[ix[a]][ix[a + 1]]
            obj[j] = t
        g = numpy.empty(len(self._t_ineq))
        for j, (w, cap, pw, signed) in enumerate(self._t_ineq):
            t = 0.0
            for a in range(m):
                t += w[ix[a]] * (1.0 if pw is None else pw[a % len(pw)])
            g[j] = t - cap if (signed or t > cap) else 0.0          # signed: the slack itself (negative when feasible)
        h = numpy.empty(len(self._t_eq))
        for j, (w, tg, pw, scale) in enumerate(self._t_eq):
            t = 0.0
            for a in range(m):
                t += w[ix[a]] * (1.0 if pw is None else pw[a % len(pw)])
            h[j] = abs(t - tg) if scale is None else scale * (t - tg)   # scale: signed, within pymoo's 1e-4 equality tolerance
        return self.obj_wt * obj, self.ineqcv_wt * g, self.eqcv_wt * h


def order_dependent(spec):
    return spec["kind"] == "subset" and (any(o.get("posw") or o.get("opair") for o in spec["obj"]) or
                                         any(c.get("pw") for c in spec.get("ineq", []) + spec.get("eq", [])))


def _vec_eval(self, x):
    self.n_evalfn += 1
    xs = [float(v) for v in x]
    obj = numpy.empty(len(self._t_obj))
    for j, o in enumerate(self._t_obj):
        t = 0.0
        for i, v in enumerate(xs):
            d = v - o["t"][i]
            t += o["a"][i] * d * d + o["b"][i] * v
        obj[j] = t
    g = numpy.empty(len(self._t_ineq))
    for j, (w, cap, signed) in enumerate(self._t_ineq):
        t = sum(wi * v for wi, v in zip(w, xs))
        g[j] = t - cap if (signed or t > cap) else 0.0
    h = numpy.empty(len(self._t_eq))
    for j, (w, tg, scale) in enumerate(self._t_eq):
        t = sum(wi * v for wi, v in zip(w, xs))
        h[j] = abs(t - tg) if scale is None else scale * (t - tg)
    return self.obj_wt * obj, self.ineqcv_wt * g, self.eqcv_wt * h


def _vec_retable(self, spec):
    self._t_obj = spec["obj"]
    self._t_ineq = [(list(map(float, c["w"])), float(c["cap"]), bool(c.get("signed"))) for c in spec.get("ineq", [])]
    self._t_eq = [(list(map(float, c["w"])), float(c["target"]), c.get("scale")) for c in spec.get("eq", [])]


def _vec_init(self, spec, base, dtype):
    lo = numpy.array(spec["lo"], dtype=dtype)
    hi = numpy.array(spec["hi"], dtype=dtype)
    _vec_retable(self, spec)
    self.n_evalfn = 0
    base.__init__(
        self, ndecn=len(spec["lo"]), decn_space=numpy.stack([lo, hi]), decn_space_lower=lo, decn_space_upper=hi,
        nobj=len(self._t_obj), obj_wt=numpy.array(spec.get("obj_wt", [1.0] * len(self._t_obj)), dtype=float),
        nineqcv=len(self._t_ineq), ineqcv_wt=numpy.array(spec.get("ineq_wt", [1.0] * len(self._t_ineq)), dtype=float),
        neqcv=len(self._t_eq), eqcv_wt=numpy.array(spec.get("eq_wt", [1.0] * len(self._t_eq)), dtype=float))


class _TableReal(RealProblem):
    _retable = _vec_retable

    def __init__(self, spec):
        _vec_init(self, spec, RealProblem, float)

    def evalfn(self, x, *a, **k):
        return _vec_eval(self, x)


class _TableInteger(IntegerProblem):
    _retable = _vec_retable

    def __init__(self, spec):
        _vec_init(self, spec, IntegerProblem, "int64")

    def evalfn(self, x, *a, **k):
        return _vec_eval(self, x)


class _TableBinary(BinaryProblem):
    _retable = _vec_retable

    def __init__(self, spec):
        _vec_init(self, spec, BinaryProblem, "int64")

    def evalfn(self, x, *a, **k):
        return _vec_eval(self, x)


def build(spec):
    return {"subset": _TableSubset, "real": _TableReal, "integer": _TableInteger, "binary": _TableBinary}[spec["kind"]](spec)


_DT = {"real": float, "integer": "int64", "binary": "int64"}


def apply_setters(prob, spec):
    """Setter history: turn an already constructed problem object into the problem described by `spec` using only the
    PUBLIC property setters (ndecn, decn_space, decn_space_lower/upper, nineqcv, neqcv, obj_wt, ineqcv_wt, eqcv_wt);
    the number of objectives is kept.  The fixture's private objective tables are swapped alongside."""
    assert len(spec["obj"]) == prob.nobj
    prob._retable(spec)
    if spec["kind"] == "subset":
        cand = numpy.array(spec["cand"], dtype="int64")
        prob.ndecn = spec["k"]
        prob.decn_space = cand
        prob.decn_space_lower = numpy.repeat(int(cand.min()), spec["k"])
        prob.decn_space_upper = numpy.repeat(int(cand.max()), spec["k"])
    else:
        lo = numpy.array(spec["lo"], dtype=_DT[spec["kind"]])
        hi = numpy.array(spec["hi"], dtype=_DT[spec["kind"]])
        prob.ndecn = len(spec["lo"])
        prob.decn_space = numpy.stack([lo, hi])
        prob.decn_space_lower = lo
        prob.decn_space_upper = hi
    prob.obj_wt = numpy.array(spec.get("obj_wt", [1.0] * len(spec["obj"])), dtype=float)
    prob.nineqcv = len(spec.get("ineq", []))
    prob.ineqcv_wt = numpy.array(spec.get("ineq_wt", [1.0] * len(spec.get("ineq", []))), dtype=float)
    prob.neqcv = len(spec.get("eq", []))
    prob.eqcv_wt = numpy.array(spec.get("eq_wt", [1.0] * len(spec.get("eq", []))), dtype=float)
    return prob


def build_hist(spec, hist):
    """the problem `spec`, either constructed directly (hist None) or constructed as `hist` and then changed through the setters"""
    if hist is None:
        return build(spec)
    return apply_setters(build(hist), spec)


def public_view(prob):
    """what the public properties of the problem say its decision space / shape is"""
    return dict(ndecn=int(prob.ndecn), decn_space=numpy.asarray(prob.decn_space).tolist(),
                lower=numpy.asarray(prob.decn_space_lower).tolist(), upper=numpy.asarray(prob.decn_space_upper).tolist(),
                nobj=int(prob.nobj), obj_wt=prob.obj_wt.tolist(), nineqcv=int(prob.nineqcv), neqcv=int(prob.neqcv),
                ineqcv_wt=prob.ineqcv_wt.tolist(), eqcv_wt=prob.eqcv_wt.tolist())


# ----------------------------------------------------------------------------
# reference side
_SKIP = ("n_evalfn", "limit")


def _fc(v):
    if v is None or isinstance(v, (bool, int, float, str)):
        return v
    if isinstance(v, numpy.ndarray):
        return (v.dtype.str, v.shape, v.tobytes())
    if isinstance(v, (list, tuple, dict)):
        return repr(v)
    if isinstance(v, numpy.generic):
        return v.item()
    return ("obj", type(v).__name__, getattr(v, "__name__", ""))


def snapshot(prob):
    """Every attribute of the problem object (the public fields are properties over these)."""
    return tuple((k, _fc(v)) for k, v in vars(prob).items() if k not in _SKIP)


def snap_diff(a, b):
    if a == b:
        return None
    a, b = dict(a), dict(b)
    for k in sorted(set(a) | set(b)):
        if a.get(k) != b.get(k) or (k in a) != (k in b):
            return k
    return "?"


def subset_defects(x, cand, k):
    """None if x is a k-subset of cand, else the failure kind."""
    x = numpy.asarray(x)
    if x.ndim != 1 or x.shape[0] != k:
        return "size"
    vals = x.tolist()
    cs = set(int(c) for c in cand)
    for v in vals:
        if isinstance(v, float) and v != int(v):
            return "alien-member"
        if int(v) not in cs:
            return "alien-member"
    if len(set(int(v) for v in vals)) != k:
        return "duplicate-member"
    return None


def cv_score(prob, x):
    o, g, h = prob.evalfn(numpy.asarray(x))
    return float(g.sum() + h.sum()), float(o.sum())


def brute_min_obj(prob, cand, k):
    best = None
    for S in itertools.combinations([int(c) for c in cand], k):
        o = float(prob.evalfn(numpy.array(S, dtype="int64"))[0].sum())
        if best is None or o < best:
            best = o
    return best


def improving_exchange(prob, x, cand):
    """First single exchange (position i <- outside member c) that is lexicographically better in
    (total constraint violation, score), or None: the complete neighbourhood is scanned."""
    x = [int(v) for v in x]
    base = cv_score(prob, numpy.array(x, dtype="int64"))
    inside = set(x)
    for i in range(len(x)):
        for c in cand:
            c = int(c)
            if c in inside:
                continue
            y = list(x)
            y[i] = c
            got = cv_score(prob, numpy.array(y, dtype="int64"))
            if got[0] < base[0] or (got[0] == base[0] and got[1] < base[1]):
                return (i, c, base, got)
    return None


def ref_descent_steps(prob, start, cand):
    """number of exchanges a steepest-descent climber (best strictly improving single exchange per sweep, first best on ties)
    makes from `start` before no exchange improves (cv, score)"""
    S = [int(v) for v in start]
    steps = 0
    while True:
        best = cv_score(prob, numpy.array(S, dtype="int64"))
        move = None
        for i in range(len(S)):
            for c in cand:
                c = int(c)
                if c in S:
                    continue
                T = list(S)
                T[i] = c
                got = cv_score(prob, numpy.array(T, dtype="int64"))
                if got < best:
                    best, move = got, (i, c)
        if move is None:
            return steps
        S[move[0]] = move[1]
        steps += 1


def total_cv(g, h):
    g = numpy.asarray(g, dtype=float)
    h = numpy.asarray(h, dtype=float)
    h = numpy.abs(h)
    h = numpy.where(h <= 1e-4, 0.0, h)          # pymoo's equality tolerance
    return float(numpy.maximum(g, 0.0).sum() + h.sum())


def dominated_pair(F, CV):
    """O(n^2) definition.  a dominates b: both feasible -> all(Fa<=Fb) and any(Fa<Fb); otherwise CVa < CVb.
    Returns (a, b) for the first dominated member b, or None."""
    n = len(F)
    for a in range(n):
        for b in range(n):
            if a == b:
                continue
            if CV[a] <= 0.0 and CV[b] <= 0.0:
                le = all(F[a][j] <= F[b][j] for j in range(len(F[a])))
                lt = any(F[a][j] < F[b][j] for j in range(len(F[a])))
                if le and lt:
                    return (a, b)
            elif CV[a] < CV[b]:
                return (a, b)
    return None


# ----------------------------------------------------------------------------
# scripted numpy.random.* (module level functions = the legacy global RandomState)
class ScriptedGlobal:
    """choice / randint / random / binomial as choice points.  Menus contain only answers the real
    functions can return for the same arguments; argument combinations for which numpy raises are
    delegated to numpy (so the library sees the genuine exception)."""

    def __init__(self, ch, umenu=(0.25, 0.75, 0.0, (TWO53 - 1) / TWO53)):
        self.ch = ch
        self.umenu = list(umenu)
        self.calls = []
        self._orig = {}

    # -- the four functions the add-on uses
    def choice(self, a, size=None, replace=True, p=None):
        if p is not None:
            raise UnscriptedDraw("numpy.random.choice with p")
        pool = numpy.arange(a) if isinstance(a, (int, numpy.integer)) else numpy.array(a, copy=True)
        if pool.ndim != 1:
            raise UnscriptedDraw("numpy.random.choice on a non 1-d pool")
        n = len(pool)
        shp = shape_of(size)
        cnt = int(numpy.prod(shp)) if size is not None else 1
        if n == 0 and cnt > 0 or (not replace and cnt > n) or len(shp) > 1:
            return self._orig["choice"](a, size, replace, p)     # numpy raises (or unusual shape)
        self.calls.append(("choice", n, None if size is None else cnt, bool(replace)))
        if size is None:
            return pool[self.ch.choose(n, tag="choice") if n > 1 else 0]
        idx = []
        if replace:
            for _ in range(cnt):
                idx.append(self.ch.choose(n, tag="choice_r") if n > 1 else 0)
        else:
            left = list(range(n))
            for _ in range(cnt):
                c = self.ch.choose(len(left), tag="choice_nr") if len(left) > 1 else 0
                idx.append(left.pop(c))
        return pool[numpy.array(idx, dtype="int64")]

    def randint(self, low, high=None, size=None, dtype=int):
        if size is not None:
            raise UnscriptedDraw("numpy.random.randint with size")
        if high is None:
            low, high = 0, low
        if high <= low:
            return self._orig["randint"](low, high)
        self.calls.append(("randint", int(low), int(high)))
        n = int(high) - int(low)
        return int(low) + (self.ch.choose(n, tag="randint") if n > 1 else 0)

    def random(self, size=None):
        shp = shape_of(size)
        cnt = int(numpy.prod(shp)) if size is not None else 1
        self.calls.append(("random", cnt))
        vals = [self.umenu[self.ch.choose(len(self.umenu), tag="random")] for _ in range(cnt)]
        if size is None:
            return vals[0]
        return numpy.array(vals, dtype=float).reshape(shp)

    def binomial(self, n, p, size=None):
        if size is not None:
            raise UnscriptedDraw("numpy.random.binomial with size")
        self.calls.append(("binomial", int(n), float(p)))
        if p <= 0.0:
            return 0
        if p >= 1.0:
            return int(n)
        return self.ch.choose(int(n) + 1, tag="binomial")

    def _forbidden(self, name):
        def f(*a, **k):
            raise UnscriptedDraw(f"numpy.random.{name}{a}")
        return f

    @contextlib.contextmanager
    def installed(self):
        names = ["choice", "randint", "random", "binomial"]
        trip = ["rand", "randn", "random_sample", "ranf", "sample", "uniform", "normal", "permutation", "shuffle",
                "random_integers", "standard_normal", "bytes"]
        for nme in names + trip:
            self._orig[nme] = getattr(numpy.random, nme)
        try:
            for nme in names:
                setattr(numpy.random, nme, getattr(self, nme))
            for nme in trip:
                setattr(numpy.random, nme, self._forbidden(nme))
            yield self
        finally:
            for nme, fn in self._orig.items():
                setattr(numpy.random, nme, fn)


@contextlib.contextmanager
def global_stream_tripwire():
    """For code that must not draw from numpy's global stream at all."""
    sg = ScriptedGlobal(None)
    names = ["choice", "randint", "random", "binomial", "rand", "randn", "random_sample", "uniform", "normal",
             "permutation", "shuffle"]
    orig = {n: getattr(numpy.random, n) for n in names}
    try:
        for n in names:
            setattr(numpy.random, n, sg._forbidden(n))
        yield
    finally:
        for n, f in orig.items():
            setattr(numpy.random, n, f)


class InitialDrawHandler:
    """ScriptedGenerator handler for the hill-climber: the single `choice` call is the environment.
    The menu follows the arguments the library passes (with / without replacement)."""

    def __init__(self, ch):
        self.ch = ch
        self.seen = []
        self.last = None

    def choice(self, gen, a, size, replace, p):
        if p is not None:
            raise UnscriptedDraw("choice with p")
        pool = numpy.arange(a) if isinstance(a, (int, numpy.integer)) else numpy.array(a, copy=True)
        n = len(pool)
        k = int(size) if size is not None else 1
        self.seen.append((n, k, bool(replace)))
        if replace:
            idx = [self.ch.choose(n, tag="init_r") if n > 1 else 0 for _ in range(k)]
        else:
            if k > n:
                raise ValueError("Cannot take a larger sample than population when replace is False")
            left = list(range(n))
            idx = []
            for _ in range(k):
                c = self.ch.choose(len(left), tag="init_nr") if len(left) > 1 else 0
                idx.append(left.pop(c))
        out = pool[numpy.array(idx, dtype="int64")]
        self.last = out.tolist()
        return out if size is not None else out[0]


class UniformMenuHandler:
    """ScriptedGenerator handler for pymoo's own real-coded operators (SBX / PM): every cell of every
    random()/uniform draw takes each value of a small menu of reachable answers (both ends of [0,1),
    the comparison thresholds 0.5 and 1/n_var themselves, one interior point per interval)."""

    def __init__(self, ch, menu):
        self.ch = ch
        self.menu = list(menu)
        self.ncells = 0

    def random(self, gen, size):
        shp = shape_of(size)
        cnt = int(numpy.prod(shp)) if size is not None else 1
        self.ncells += cnt
        vals = [self.menu[self.ch.choose(len(self.menu), tag="u") if len(self.menu) > 1 else 0] for _ in range(cnt)]
        if size is None:
            return vals[0]
        return numpy.array(vals, dtype=float).reshape(shp)


# ----------------------------------------------------------------------------
def ordered_subsets(cand, k):
    return list(itertools.permutations([int(c) for c in cand], k))
