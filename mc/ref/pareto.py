"""Reference model for C19: O(n^2) Pareto dominance, feasibility-first dominance and the
geometric definition of the distance-to-preference-vector transformation.

Everything is exact (`fractions.Fraction`, python ints); the only floating operation is
the final square root of the squared distance.  No code is shared with pybrops.
"""
from __future__ import annotations
import itertools, math
from fractions import Fraction as Q


def Qf(x):
    """Exact Fraction of an int / float / 'a/b' string (floats used by the checks are dyadic)."""
    return x if isinstance(x, Q) else Q(x)


# ----------------------------------------------------------------------------
# weighted Pareto dominance (all weighted objectives are maximised)
def ge_all(a, b, w):
    """a is at least as good as b in every weighted objective."""
    return all(wj * (aj - bj) >= 0 for aj, bj, wj in zip(a, b, w))


def dominates_max(a, b, w):
    """a dominates b: at least as good in every weighted objective and strictly better in one."""
    return ge_all(a, b, w) and any(wj * (aj - bj) > 0 for aj, bj, wj in zip(a, b, w))


def tables(points, w):
    """GE[a][b], DOM[a][b] over a list of grid points for one weight vector."""
    n = len(points)
    GE = [[ge_all(points[a], points[b], w) for b in range(n)] for a in range(n)]
    DOM = [[dominates_max(points[a], points[b], w) for b in range(n)] for a in range(n)]
    return GE, DOM


def sgn(x):
    return (x > 0) - (x < 0)


def unique_perms(ms):
    """All distinct orders of a multiset (tuple), in lexicographic order."""
    return sorted(set(itertools.permutations(ms)))


# ----------------------------------------------------------------------------
# feasibility-first dominance (objectives are minimised, cv <= 0 means feasible)
def dominates_ref(o1, cv1, o2, cv2):
    if cv1 <= 0 and cv2 <= 0:
        return all(a <= b for a, b in zip(o1, o2)) and any(a < b for a, b in zip(o1, o2))
    return cv1 < cv2


# ----------------------------------------------------------------------------
# distance of the min-max scaled front to the preference line
def scaled_front(points, sign):
    """Rows of Fractions: objective j of every point multiplied by sign[j], shifted by the column
    minimum and divided by the column range.  A constant objective (range 0) is mapped to 0 —
    the convention of the guarded implementation (core/util/trans.py), and what
    (x - min) * <any finite scale> gives.  Returns (rows, list of constant column indices)."""
    k = len(sign)
    cols = [[Qf(p[j]) * Qf(sign[j]) for p in points] for j in range(k)]
    const = []
    out = [[None] * k for _ in points]
    for j in range(k):
        lo, hi = min(cols[j]), max(cols[j])
        if hi == lo:
            const.append(j)
        for i, x in enumerate(cols[j]):
            out[i][j] = Q(0) if hi == lo else (x - lo) / (hi - lo)
    return out, const


def sqdist_to_line(x, v):
    """|x - ((x.v)/(v.v)) v|^2 exactly."""
    vv = sum(c * c for c in v)
    xv = sum(a * c for a, c in zip(x, v))
    coef = xv / vv
    return sum((a - coef * c) ** 2 for a, c in zip(x, v))


def geo_dist(points, sign, pref):
    """Geometric definition: list of float distances (one sqrt each), constant columns."""
    rows, const = scaled_front(points, sign)
    v = [Qf(c) for c in pref]
    d2 = [sqdist_to_line(r, v) for r in rows]
    return [math.sqrt(float(q)) for q in d2], const   # float(Fraction) is correctly rounded
