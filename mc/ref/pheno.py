"""Reference model for C14 — simulated field trials and mean-phenotype breeding values.

Everything here is deliberately boring: populations are lists of taxa records, true
genotypic values are nested loops over markers in `fractions.Fraction`, a field trial
is the list of (taxon, env, rep) triples, a breeding value is a mean of a python list.
Nothing is shared with the library except the *constructors* used to hand the same
data to the real code (`build_*`).

The random generator is an environment (mc.env.ScriptedGenerator); `TagHandler`
answers every `multivariate_normal` / `normal` draw with a *tagged* vector: draw
number d returns  mean + sign_j * 2**e_d  in every trait j whose requested variance
is positive and exactly `mean` where the variance is 0.  (That is the value numpy
returns for the standard-normal deviate z_j = sign_j * 2**e_d / sqrt(var_j) — any finite
z is a reachable answer — and N(m, 0) is the constant m.)  Because the tags are
distinct powers of two, every table cell decomposes uniquely into
true value + the set of draws that were added to it.
"""
from __future__ import annotations
from fractions import Fraction
import itertools
import math
import numpy

# ----------------------------------------------------------------------------
# value alphabets, rotated by VERIF_SEED (never select *which* cases run)
NAMES = [["c", "a", "d", "b"], ["L10", "L9", "L2", "L100"], ["b x", "B", "a", "_z"]]
UNPHENO = [("A0", "zz"), ("K1", "M0"), ("0q", "~q")]          # sorts before / after every name
GRP_DUP = [[2, 1, 2, 1], [5, 5, 0, 5], [-1, 3, -1, 3]]
GRP_UNIQ = [[3, 1, 4, 2], [10, 9, 2, 100], [0, -2, 7, 5]]
LABVARS = ("uns-grpdup", "uns-grpuniq", "uns-nogrp", "sorted-grpdup", "notaxa")

# phased genotypes of up to 4 taxa x 3 markers: allele counts [1,2,0] [2,0,1] [0,0,2] [1,1,1]
PHASE0 = [[0, 1, 0], [1, 0, 1], [0, 0, 1], [1, 0, 0]]
PHASE1 = [[1, 1, 0], [1, 0, 0], [0, 0, 1], [0, 1, 1]]
PHASE2 = [[1, 0, 0], [0, 0, 1], [0, 1, 1], [0, 1, 0]]      # tetraploid dosages: [2,2,0] [2,0,2] [0,1,4] [1,2,1]
PHASE3 = [[0, 0, 0], [0, 0, 0], [0, 0, 1], [0, 0, 0]]
NMARK = 3

U_A = [[[1.0, -0.5], [2.0, 0.25], [-0.75, 1.5]],
       [[0.1, -1.3], [2.7, 0.33], [-0.9, 1.1]],
       [[3.0, -2.0], [-1.0, 0.125], [0.5, 8.0]]]
U_D = [[[0.5, 0.0], [0.0, -1.0], [0.25, 0.5]],
       [[0.45, 0.0], [0.0, -0.7], [0.2, 0.6]],
       [[-0.5, 1.0], [2.0, 0.0], [0.0, 0.25]]]
BETA = [[10.0, -3.5], [100.3, 0.0], [-7.25, 1000.0]]
TRAIT_NAMES = [["y1", "y2"], ["yield", "Trait 2"], ["t_b", "t_a"]]

MODELS = (("AL", 1, True), ("AL", 2, True), ("ADL", 1, True), ("ADL", 2, True), ("AL", 2, False))
VAR_LEVELS = (0.0, 1.0, 4.0)


# ----------------------------------------------------------------------------
class Pop:
    """n taxa; labels per variant.  `tie=True` gives taxon 1 the genotype of taxon 0."""

    def __init__(self, n, labvar, seed=0, ploidy=2):
        s = seed % 3
        self.n, self.labvar, self.seed, self.ploidy = n, labvar, seed, ploidy
        names = NAMES[s][:n]
        if labvar == "sorted-grpdup":
            names = sorted(names)
        self.taxa = None if labvar == "notaxa" else list(names)
        if labvar in ("uns-grpdup",):
            self.grp = GRP_DUP[s][:n]
        elif labvar == "sorted-grpdup":
            self.grp = sorted(GRP_DUP[s][:n])
        elif labvar == "uns-grpuniq":
            self.grp = GRP_UNIQ[s][:n]
        else:
            self.grp = None
        tie = (s == 2)
        src = [0 if (tie and i == 1) else i for i in range(n)]
        self.ph = [[list(P[k]) for k in src] for P in (PHASE0, PHASE1, PHASE2, PHASE3)[:ploidy]]
        self.recount()

    # the two phases of a diploid (kept as names because most layers are diploid)
    @property
    def ph0(self):
        return self.ph[0]

    @property
    def ph1(self):
        return self.ph[1]

    def recount(self):
        """dosage = number of copies of the counted allele; heterozygous = 0 < dosage < ploidy."""
        self.count = [[sum(P[i][k] for P in self.ph) for k in range(NMARK)] for i in range(self.n)]
        self.het = [[1 if 0 < c < self.ploidy else 0 for c in self.count[i]] for i in range(self.n)]

    def permuted(self, order):
        """The taxa `order` (indices, possibly a subset) as a population of their own."""
        q = Pop.__new__(Pop)
        q.n, q.labvar, q.seed, q.ploidy = len(order), self.labvar, self.seed, self.ploidy
        q.taxa = [self.taxa[i] for i in order]
        q.grp = None if self.grp is None else [self.grp[i] for i in order]
        q.ph = [[list(P[i]) for i in order] for P in self.ph]
        q.recount()
        return q


def pop_copy(pop):
    q = Pop.__new__(Pop)
    q.n, q.labvar, q.seed, q.ploidy = pop.n, pop.labvar, pop.seed, pop.ploidy
    q.taxa = None if pop.taxa is None else list(pop.taxa)
    q.grp = None if pop.grp is None else list(pop.grp)
    q.ph = [[list(r) for r in P] for P in pop.ph]
    q.recount()
    return q


def build_pgmat(pop):
    from pybrops.popgen.gmat.DensePhasedGenotypeMatrix import DensePhasedGenotypeMatrix
    mat = numpy.array(pop.ph, dtype="int8")            # (ploidy, n, p)
    return DensePhasedGenotypeMatrix(
        mat=mat,
        taxa=None if pop.taxa is None else numpy.array(pop.taxa, dtype=object),
        taxa_grp=None if pop.grp is None else numpy.array(pop.grp, dtype="int64"),
        vrnt_chrgrp=numpy.array([1, 1, 2], dtype="int64"),
        vrnt_phypos=numpy.array([10, 20, 5], dtype="int64"),
        vrnt_name=numpy.array(["m0", "m1", "m2"], dtype=object),
    )


def build_gmat(taxa, grp=None, phased=False):
    """A genotype matrix that only serves as the *taxon order* for estimate()."""
    n = len(taxa)
    if phased:
        from pybrops.popgen.gmat.DensePhasedGenotypeMatrix import DensePhasedGenotypeMatrix
        return DensePhasedGenotypeMatrix(mat=numpy.zeros((2, n, 1), dtype="int8"), taxa=numpy.array(taxa, dtype=object),
                                         taxa_grp=None if grp is None else numpy.array(grp, dtype="int64"),
                                         vrnt_chrgrp=numpy.array([1], dtype="int64"), vrnt_phypos=numpy.array([1], dtype="int64"))
    from pybrops.popgen.gmat.DenseGenotypeMatrix import DenseGenotypeMatrix
    return DenseGenotypeMatrix(mat=numpy.ones((n, 1), dtype="int8"), taxa=numpy.array(taxa, dtype=object),
                               taxa_grp=None if grp is None else numpy.array(grp, dtype="int64"),
                               vrnt_chrgrp=numpy.array([1], dtype="int64"), vrnt_phypos=numpy.array([1], dtype="int64"))


class Model:
    def __init__(self, kind, t, named, seed=0):
        s = seed % 3
        self.kind, self.t, self.named = kind, t, named
        self.u_a = [row[:t] for row in U_A[s]]
        self.u_d = [row[:t] for row in U_D[s]] if kind == "ADL" else [[0.0] * t for _ in range(NMARK)]
        self.beta = BETA[s][:t]
        self.trait = TRAIT_NAMES[s][:t] if named else None

    def build(self):
        tr = None if self.trait is None else numpy.array(self.trait, dtype=object)
        if self.kind == "AL":
            from pybrops.model.gmod.DenseAdditiveLinearGenomicModel import DenseAdditiveLinearGenomicModel
            return DenseAdditiveLinearGenomicModel(beta=numpy.array([self.beta], dtype=float), u_misc=None,
                                                   u_a=numpy.array(self.u_a, dtype=float), trait=tr)
        from pybrops.model.gmod.DenseAdditiveDominanceLinearGenomicModel import DenseAdditiveDominanceLinearGenomicModel
        return DenseAdditiveDominanceLinearGenomicModel(beta=numpy.array([self.beta], dtype=float), u_misc=None,
                                                        u_a=numpy.array(self.u_a, dtype=float),
                                                        u_d=numpy.array(self.u_d, dtype=float), trait=tr)

    # true genotypic value: intercept + sum_k count_k * a_k + [heterozygous at k] * d_k
    def genotypic(self, pop):
        out = []
        for i in range(pop.n):
            row = []
            for j in range(self.t):
                v = Fraction(self.beta[j])
                for k in range(NMARK):
                    v += pop.count[i][k] * Fraction(self.u_a[k][j]) + pop.het[i][k] * Fraction(self.u_d[k][j])
                row.append(v)
            out.append(row)
        return out

    # breeding value: intercept + additive part only
    def breeding(self, pop):
        out = []
        for i in range(pop.n):
            row = []
            for j in range(self.t):
                v = Fraction(self.beta[j])
                for k in range(NMARK):
                    v += pop.count[i][k] * Fraction(self.u_a[k][j])
                row.append(v)
            out.append(row)
        return out


def pvar(col):
    """Population variance (divisor n) of a list of Fractions — the library's documented
    'population (additive) genetic variance'."""
    n = len(col)
    mu = sum(col, Fraction(0)) / n
    return sum(((v - mu) ** 2 for v in col), Fraction(0)) / n


# ----------------------------------------------------------------------------
# trial layouts
def envrep_menu(nenv, thorough=True):
    """(nrep argument, per-environment list).  Scalars and arrays with unequal entries."""
    if nenv == 1:
        m = [(1, [1]), (2, [2]), ([1], [1]), ([3], [3])]
    elif nenv == 2:
        m = [(1, [1, 1]), (2, [2, 2]), ([1, 2], [1, 2]), ([2, 1], [2, 1])]
    else:
        m = [(1, [1, 1, 1]), ([2, 1, 1], [2, 1, 1]), ([1, 1, 2], [1, 1, 2])]
        if thorough:
            m += [(2, [2, 2, 2]), ([1, 2, 1], [1, 2, 1])]
    return m


def records(n, nrep_list):
    return [(i, e, p) for e, r in enumerate(nrep_list) for p in range(r) for i in range(n)]


def ndraws(n, nrep_list):
    return len(nrep_list) + sum(nrep_list) + n * sum(nrep_list)


def expected_family(n, nrep_list, v_env, v_rep, v_err):
    """For one trait: the list of (sorted record tuple, variance) one independent draw each —
    one per environment, one per (env, rep), one per record — restricted to positive variances
    (a N(0,0) draw is the constant 0 and leaves no trace)."""
    fam = []
    for e, r in enumerate(nrep_list):
        if v_env > 0:
            fam.append((tuple((i, e, p) for p in range(r) for i in range(n)), v_env))
        for p in range(r):
            if v_rep > 0:
                fam.append((tuple((i, e, p) for i in range(n)), v_rep))
            if v_err > 0:
                for i in range(n):
                    fam.append((((i, e, p),), v_err))
    return fam


def var_argument(v, form):
    """How a per-trait variance list is handed to the library (form 0..3):
    all zero      : None / int 0 / 0.0 / float array
    all equal     : float scalar / int scalar / float array / int array
    differing     : float array (even form) / int array (odd form)
    (int forms fall back to float when a value is not integral)."""
    integral = all(float(x).is_integer() for x in v)
    f = form % 4
    if all(x == 0 for x in v):
        return [None, 0, 0.0, numpy.zeros(len(v), dtype=float)][f]
    if len(set(v)) == 1:
        if f == 0 or (f == 1 and not integral):
            return float(v[0])
        if f == 1:
            return int(v[0])
        if f == 2 or not integral:
            return numpy.array(v, dtype=float)
        return numpy.array([int(x) for x in v], dtype="int64")
    if f % 2 == 1 and integral:
        return numpy.array([int(x) for x in v], dtype="int64")
    return numpy.array(v, dtype=float)


def var_form_name(arg):
    if arg is None:
        return "None"
    if isinstance(arg, numpy.ndarray):
        return "array-" + arg.dtype.kind
    return "scalar-" + type(arg).__name__


def nrep_argument(nrep, form):
    if isinstance(nrep, int):
        return numpy.int64(nrep) if form % 2 else nrep
    return numpy.array(nrep, dtype="int32" if form % 2 else "int64")


# ----------------------------------------------------------------------------
class TagHandler:
    """Scripted answers for the normal family.  One *draw* = one t-vector (one row of a sized call).

    order 'asc'  : draw d gets exponent d
    order 'desc' : draw d gets exponent (expected-1-d)  (later ones, if any, continue above the range)
    signs        : per-trait sign of every tag in that trait's column
    zero=True    : every draw returns its mean (z = 0; a reachable answer)
    """

    def __init__(self, t, order="asc", signs=None, expected=0, zero=False):
        self.t, self.order, self.expected, self.zero = t, order, expected, zero
        self.signs = list(signs) if signs is not None else [1] * t
        self.draws = []      # dict(id, call, phase, e, var(tuple), mean(tuple), offdiag(bool), sized(bool))
        self.ncalls = 0
        self.phase = 0
        self.overflow = False

    MAX_EXP = 46

    def _exp(self, d):
        if self.order == "asc" or d >= self.expected:
            return d
        return self.expected - 1 - d

    def _emit(self, mean, var, nrows, offdiag, sized):
        out = numpy.empty((nrows, self.t), dtype=float)
        for r in range(nrows):
            d = len(self.draws)
            e = self._exp(d)
            if e > self.MAX_EXP:
                # more draws than a double can keep apart: answer z = 0 (reachable) and say so; the oracle
                # then decides truth / decomposition only and reports the execution as capped
                e = None
                self.overflow = True
            self.draws.append(dict(id=d, call=self.ncalls, phase=self.phase, e=e, var=tuple(var), mean=tuple(mean),
                                   offdiag=offdiag, sized=sized))
            for j in range(self.t):
                x = 0.0 if (self.zero or e is None or not (var[j] > 0)) else self.signs[j] * float(2 ** e)
                out[r, j] = mean[j] + x
        self.ncalls += 1
        return out

    def multivariate_normal(self, gen, mean, cov, size):
        from mc.env import UnscriptedDraw
        mean = numpy.asarray(mean, dtype=float)
        cov = numpy.asarray(cov, dtype=float)
        if mean.shape != (self.t,) or cov.shape != (self.t, self.t) or not numpy.all(numpy.isfinite(cov)):
            raise UnscriptedDraw(f"multivariate_normal(mean shape {mean.shape}, cov shape {cov.shape}) for {self.t} traits")
        var = [float(cov[j, j]) for j in range(self.t)]
        off = bool(numpy.any(cov - numpy.diag(numpy.diag(cov)) != 0))
        if size is None:
            return self._emit(mean.tolist(), var, 1, off, False)[0]
        if isinstance(size, (int, numpy.integer)):
            return self._emit(mean.tolist(), var, int(size), off, True)
        size = tuple(int(s) for s in size)
        if len(size) != 1:
            raise UnscriptedDraw(f"multivariate_normal size {size}")
        return self._emit(mean.tolist(), var, size[0], off, True)

    def normal(self, gen, loc, scale, size):
        """normal(loc, scale, size) with last axis = traits: every row of length t is one draw."""
        from mc.env import UnscriptedDraw, shape_of
        shp = shape_of(size) if size is not None else numpy.broadcast(numpy.asarray(loc), numpy.asarray(scale)).shape
        if len(shp) not in (1, 2) or shp[-1] != self.t:
            raise UnscriptedDraw(f"normal(size={size}) is not a per-trait draw for {self.t} traits")
        loc_b = numpy.broadcast_to(numpy.asarray(loc, dtype=float), shp).reshape(-1, self.t)
        sc_b = numpy.broadcast_to(numpy.asarray(scale, dtype=float), shp).reshape(-1, self.t)
        call = self.ncalls
        rows = []
        for r in range(loc_b.shape[0]):
            self.ncalls = call
            rows.append(self._emit(loc_b[r].tolist(), [float(x) ** 2 for x in sc_b[r]], 1, False, len(shp) == 2)[0])
        self.ncalls = call + 1
        return numpy.array(rows).reshape(shp)


def spacing(x):
    x = abs(float(x))
    return math.ulp(x) if math.isfinite(x) else 0.0


def decode(resid, tol):
    """resid ~ sum of distinct 2**e (e >= 0)  ->  sorted list of exponents, or None."""
    k = round(resid)
    if abs(resid - k) > tol or k < 0:
        return None
    out = []
    e = 0
    while k:
        if k & 1:
            out.append(e)
        k >>= 1
        e += 1
    return out


# ----------------------------------------------------------------------------
# phenotype tables for estimate()
def record_value(r, j, alpha):
    """Provenance-coded cell of record r, trait j."""
    if alpha == 0:
        return float(2 ** r) if j == 0 else float(3 ** r) + 0.5
    if alpha == 1:
        return 0.1 * (r + 1) ** 2 + 7.3 * j
    if alpha == 2:
        return (1e6 + 2 ** r) if j == 0 else -(1.25 * r)
    return 2.5           # 'const': every record identical (zero spread -> the unit-scale shortcut)


def count_patterns(max_rows, max_taxa=3):
    out = []
    for k in range(1, max_taxa + 1):
        for c in itertools.product((1, 2, 3), repeat=k):
            if sum(c) <= max_rows:
                out.append(c)
    return out


def base_rows(counts):
    """Round-robin interleaving of the taxa: row = taxon index."""
    left = list(counts)
    rows = []
    while any(left):
        for i in range(len(left)):
            if left[i]:
                rows.append(i)
                left[i] -= 1
    return rows


def row_orders(R, full_max=6):
    """All R! orders up to `full_max` rows; above that the identity, the reversal, every adjacent
    transposition and every rotation (the closure named in DESIGN.md)."""
    if R <= full_max:
        return [list(p) for p in itertools.permutations(range(R))], True
    seen, out = set(), []

    def add(p):
        tp = tuple(p)
        if tp not in seen:
            seen.add(tp)
            out.append(list(p))
    ident = list(range(R))
    add(ident)
    add(ident[::-1])
    for i in range(R - 1):
        p = list(ident)
        p[i], p[i + 1] = p[i + 1], p[i]
        add(p)
    for s in range(1, R):
        add(ident[s:] + ident[:s])
    return out, False


def few_orders(R):
    ident = list(range(R))
    out = [ident]
    for p in (ident[::-1], ident[1:] + ident[:1], ident[1::2] + ident[0::2]):
        if p not in out:
            out.append(p)
    return out


def gt_lists_all(P, U, kmax=4):
    """Every ordered selection (1..kmax names) from phenotyped P + unphenotyped U."""
    uni = list(P) + list(U)
    out = []
    for k in range(1, min(kmax, len(uni)) + 1):
        for sel in itertools.permutations(uni, k):
            out.append(list(sel))
    return out


def gt_lists_core(P, U):
    P = list(P)
    u0, u1 = U
    cand = [P, P[::-1], P[1:] + P[:1], [u0] + P, P + [u1], P[:1] + [u1] + P[1:], P[::-1] + [u0],
            P[1:], [u1, u0], [u0] + P[::-1] + [u1], sorted(P), P[-1:] + [u0] + P[:-1],
            P + P[:1]]            # the same line genotyped twice: both rows carry its mean
    out = []
    for c in cand:
        if c and c not in out:
            out.append(c)
    return out


def taxon_means(rows, ntrait_cols):
    """rows: list of (name, [values...]) -> {name: [mean per column]}  (Fractions, rounded once)."""
    acc = {}
    for name, vals in rows:
        a = acc.setdefault(name, [[Fraction(0)] * len(ntrait_cols), 0])
        for c, j in enumerate(ntrait_cols):
            a[0][c] += Fraction(vals[j])
        a[1] += 1
    return {k: [float(s / cnt) for s in sums] for k, (sums, cnt) in acc.items()}


# ----------------------------------------------------------------------------
# histories on one protocol object: state changes between two trials with the very same objects.
# Each op is applied to the REAL objects (protocol, model, genotype matrix) through public setters or
# in-place edits of the arrays they expose, and mirrored on the reference (Pop, Model, layout, variances).
OPS_COMMON = ("gpmod-set", "gpmod-set-kind", "gpmod-edit-u", "gpmod-edit-beta", "taxa-set", "taxa-inplace",
              "grp-set", "grp-inplace", "mat-inplace", "none")
OPS_GE = ("var_err-set", "var_env-set", "var_rep-set", "nrep-set", "nenv-nrep-set", "rng-set")


def op_applicable(op, pop, model, proto):
    if op in ("taxa-set", "taxa-inplace"):
        return pop.taxa is not None and pop.n >= 1
    if op in ("grp-set", "grp-inplace"):
        return pop.grp is not None
    if op in OPS_GE:
        return proto == "GE"
    return True


def relabel_names(pop):
    """New unique names, not in sorted order and not the old ones (rotation of old + suffix)."""
    n = pop.n
    return [pop.taxa[(i + 1) % n] + "'" for i in range(n)]


def apply_op(op, st, seed):
    """st: dict(pop, model, pg, gm, pt, nenv, nrep_list, var (3 lists or None for TruePhenotyping), handler, mkrng)
    Mutates the real objects and the reference in step; returns nothing."""
    pop, model, pg, gm, pt = st["pop"], st["model"], st["pg"], st["gm"], st["pt"]
    t = model.t
    if op == "none":
        return
    if op in ("gpmod-set", "gpmod-set-kind"):
        kind = model.kind if op == "gpmod-set" else ("ADL" if model.kind == "AL" else "AL")
        m2 = Model(kind, t, model.named, seed + 1)
        m2.trait = model.trait            # same trait names (columns keep their meaning), other effects
        st["model"] = m2
        st["gm"] = m2.build()
        pt.gpmod = st["gm"]
    elif op == "gpmod-edit-u":
        gm.u_a[0, 0] += 1.5
        gm.u_a[NMARK - 1, t - 1] -= 0.75
        model.u_a = [list(r) for r in model.u_a]
        model.u_a[0][0] += 1.5
        model.u_a[NMARK - 1][t - 1] -= 0.75
    elif op == "gpmod-edit-beta":
        gm.beta[0, t - 1] += 2.25
        model.beta = list(model.beta)
        model.beta[t - 1] += 2.25
    elif op == "taxa-set":
        new = relabel_names(pop)
        pg.taxa = numpy.array(new, dtype=object)
        pop.taxa = new
    elif op == "taxa-inplace":
        new = relabel_names(pop)
        for i, nm in enumerate(new):
            pg.taxa[i] = nm
        pop.taxa = new
    elif op == "grp-set":
        new = [g + 10 * (i % 2) for i, g in enumerate(pop.grp)][::-1]
        pg.taxa_grp = numpy.array(new, dtype="int64")
        pop.grp = new
    elif op == "grp-inplace":
        new = [g + 10 * (i % 2) for i, g in enumerate(pop.grp)][::-1]
        pg.taxa_grp[:] = new
        pop.grp = new
    elif op == "mat-inplace":
        # flip one allele of the first taxon at marker 0 (phase 0) and one of the last taxon at marker 2 (phase 1)
        for (ph, i, k) in ((0, 0, 0), (1, pop.n - 1, NMARK - 1)):
            pg.mat[ph, i, k] ^= 1
            (pop.ph0 if ph == 0 else pop.ph1)[i][k] ^= 1
        pop.recount()
    elif op in ("var_err-set", "var_env-set", "var_rep-set"):
        k = ("var_env-set", "var_rep-set", "var_err-set").index(op)
        old = st["var"][k]
        new = [{0.0: 4.0, 1.0: 0.0, 4.0: 1.0}.get(float(x), 1.0) for x in old]     # every trait's variance changes
        setattr(pt, ("var_env", "var_rep", "var_err")[k], var_argument(new, seed + k))
        st["var"][k] = new
    elif op == "nrep-set":
        new = [r % 2 + 1 + (1 if e == 0 else 0) for e, r in enumerate(st["nrep_list"])]
        pt.nrep = numpy.array(new, dtype="int64")
        st["nrep_list"] = new
    elif op == "nenv-nrep-set":
        nenv = 1 if st["nenv"] >= 2 else 2
        new = [2, 1][:nenv]
        pt.nenv = nenv
        pt.nrep = numpy.array(new, dtype="int64") if nenv == 2 else 2
        st["nenv"], st["nrep_list"] = nenv, new
    elif op == "rng-set":
        pt.rng = st["mkrng"]()
    else:
        raise ValueError(op)


# ----------------------------------------------------------------------------
# row-index alphabet for phenotype tables handed to estimate()
INDEX_VARIANTS = ("range", "perm", "subset", "str", "dup")


# ----------------------------------------------------------------------------
# protocol copies: a copy must run the same trial as the original (it shares / continues the generator)
COPY_VARIANTS = ("copy.copy", "copy.deepcopy", ".copy()", ".deepcopy()")


def make_copy(pt, how):
    import copy
    if how == "copy.copy":
        return copy.copy(pt)
    if how == "copy.deepcopy":
        return copy.deepcopy(pt)
    if how == ".copy()":
        return pt.copy()
    if how == ".deepcopy()":
        return pt.deepcopy()
    raise ValueError(how)
