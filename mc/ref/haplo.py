"""Reference model for C18: partition laws of haplotype blocks, block values, optimal haploid /
population values and doubled-haploid mosaics.  Plain python lists, ints and Fractions; no code
shared with pybrops."""
from __future__ import annotations
import itertools
from fractions import Fraction as Q


# ---------------------------------------------------------------------------- partition
def runs(labels):
    """Run-length boundaries [(start, stop), ...] of a label sequence."""
    out = []
    st = 0
    for i in range(1, len(labels) + 1):
        if i == len(labels) or labels[i] != labels[st]:
            out.append((st, i))
            st = i
    return out


def partition_failure(labels, stix, spix, nhap):
    """First violated partition law of a block labelling, or None.

    labels : list of python ints, one per marker
    stix, spix : chromosome boundaries;  nhap : requested number of blocks per chromosome
    Laws (property C18): every marker carries exactly one valid block label (an int in [0, total));
    labels never decrease (so blocks are contiguous and ordered); no block spans two chromosomes;
    the number of distinct blocks on every chromosome is the number requested for it (hence the
    total is exactly the requested total and every chromosome has at least one block)."""
    total = sum(nhap)
    for j, v in enumerate(labels):
        if not (isinstance(v, int) and 0 <= v < total):
            return "unassigned-marker", f"marker {j} carries label {v}, not a block number in [0,{total})"
    for j in range(len(labels) - 1):
        if labels[j] > labels[j + 1]:
            return "not-monotone", f"label decreases from {labels[j]} to {labels[j+1]} at marker {j+1}"
    seen = {}
    for c, (a, b) in enumerate(zip(stix, spix)):
        for v in set(labels[a:b]):
            if v in seen:
                return "crosses-chromosome", f"block {v} has markers on chromosomes {seen[v]} and {c}"
            seen[v] = c
    for c, (a, b) in enumerate(zip(stix, spix)):
        d = len(set(labels[a:b]))
        if d != nhap[c]:
            return "block-count", (f"chromosome {c} was to be cut into {nhap[c]} blocks but its markers carry {d} distinct "
                                   f"block label(s) {sorted(set(labels[a:b]))} (total requested {total}, total present {len(set(labels))})")
    return None


# ---------------------------------------------------------------------------- values
def prefix_sums(G, u):
    """pre[m][n][t][j] = sum_{i<j} G[m][n][i] * u[i][t]   (Fractions)."""
    p = len(u)
    T = len(u[0])
    out = []
    for Gm in G:
        om = []
        for row in Gm:
            ot = []
            for t in range(T):
                acc = [Q(0)]
                for j in range(p):
                    acc.append(acc[-1] + row[j] * u[j][t])
                ot.append(acc)
            om.append(ot)
        out.append(om)
    return out


def block_values(pre, rn):
    """h[m][n][b][t] for blocks given as runs [(st, sp)]."""
    return [[[[pt[sp] - pt[st] for pt in pn] for (st, sp) in rn] for pn in pm] for pm in pre]


def total_values(pre):
    return [[[pt[-1] for pt in pn] for pn in pm] for pm in pre]


def best_sum(h, taxa, ploidy):
    """ploidy * sum over blocks of the best block value among all phases of the designated taxa; list over traits."""
    nb = len(h[0][0])
    T = len(h[0][0][0]) if nb else 0
    return [ploidy * sum(max(h[m][i][b][t] for m in range(len(h)) for i in taxa) for b in range(nb)) for t in range(T)]


def gb_value(h, taxa, nbest, ploidy):
    """Genotype-builder value: per block, the nbest largest best-phase values among the selected taxa (with
    multiplicity), summed over blocks, scaled by ploidy / nbest; list over traits."""
    nb = len(h[0][0])
    T = len(h[0][0][0])
    out = []
    for t in range(T):
        s = Q(0)
        for b in range(nb):
            best = sorted(max(h[m][i][b][t] for m in range(len(h))) for i in taxa)
            s += sum(best[len(best) - nbest:])
        out.append(Q(ploidy, nbest) * s)
    return out


def dh_values(G, u, rn, taxa, ploidy):
    """Values (per trait) of every doubled haploid whose haplotype is a mosaic of the designated parents'
    chromosome copies switching only at block boundaries; computed marker by marker from the genotypes."""
    src = [(m, i) for m in range(len(G)) for i in sorted(set(taxa))]
    T = len(u[0])
    out = []
    for pick in itertools.product(src, repeat=len(rn)):
        hap = []
        for (m, i), (st, sp) in zip(pick, rn):
            hap += G[m][i][st:sp]
        out.append((pick, [ploidy * sum(hap[j] * u[j][t] for j in range(len(hap))) for t in range(T)]))
    return out
