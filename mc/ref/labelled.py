"""Reference model for labelled matrices (property C03): a *list of entities* per logical axis.

Nothing here imports pybrops or uses numpy's take/delete/insert/append/concatenate/lexsort/unique: the model is
plain Python lists, written from the documented meaning of the operations

    select  = the entities at the given positions, in the given order        (numpy.take doc)
    delete  = all entities except those at the given int / slice / index list (numpy.delete doc)
    insert  = operand entities placed before the given position(s)            (numpy.insert doc)
    adjoin / concat / append = operand entities after the existing ones
    reorder = select with a permutation, in place
    sort    = stable sort by key columns, last column primary                 (numpy.lexsort doc)
    group   = default sort, then the axis reports itself grouped iff it has a group-label array
    grouped axis => (name, stix, spix, len) are the maximal runs of the group labels, names pairwise distinct

An entity is (uid, cohort, ovr).  Its labels are a pure function of (kind, uid, profile, seed) unless the call that
brought it into a matrix overrode a label by keyword (documented: "providing this argument overwrites the field");
`ovr` is the tuple of (field, value) pairs it was created with in that case.  Its data are provenance coded: the cell at physical index (i0, i1, ...) holds
code(uid(i0), uid(i1), ...), so every cell says which entities it belongs to.  `cohort` only matters for square
(taxa x taxa) matrices, where joining two matrices leaves the cross blocks undefined (NaN): a cell is defined iff
the entities on all axes of the same logical kind have the same cohort.
"""
from __future__ import annotations
import math

# ----------------------------------------------------------------------------------------------------------------
# kinds of logical axes
KIND_FIELDS = {
    "taxa": ("taxa", "taxa_grp"),
    "vrnt": ("vrnt_chrgrp", "vrnt_phypos", "vrnt_name", "vrnt_genpos", "vrnt_xoprob", "vrnt_hapgrp",
             "vrnt_hapalt", "vrnt_hapref", "vrnt_mask"),
    "trait": ("trait",),
    "phase": (),
    "other": (),
}
FIELD_DTYPE = {
    "taxa": "object", "taxa_grp": "int64",
    "vrnt_chrgrp": "int64", "vrnt_phypos": "int64", "vrnt_name": "object", "vrnt_genpos": "float64",
    "vrnt_xoprob": "float64", "vrnt_hapgrp": "int64", "vrnt_hapalt": "object", "vrnt_hapref": "object",
    "vrnt_mask": "bool",
    "trait": "object",
}
GROUP_FIELD = {"taxa": "taxa_grp", "vrnt": "vrnt_chrgrp"}          # kinds that can be grouped
META_PREFIX = {"taxa": "taxa_grp", "vrnt": "vrnt_chrgrp"}
META_SUFFIX = ("name", "stix", "spix", "len")
DEFAULT_KEYS = {                                                     # last = primary (documented default keys)
    "taxa": ("taxa", "taxa_grp"),
    "vrnt": ("vrnt_phypos", "vrnt_chrgrp"),
    "trait": ("trait",),
}
SUFFIX = {"taxa": "_taxa", "vrnt": "_vrnt", "trait": "_trait", "phase": "_phase"}
UNIVERSE = {"taxa": 6, "vrnt": 6, "trait": 6, "phase": 5, "other": 2}
# operand pools: A = one new entity (ungrouped operand), B = two new entities in grouped order (grouped operand)
POOL = {
    "taxa": {"A": (3,), "B": (4, 5)},
    "vrnt": {"A": (3,), "B": (4, 5)},
    "trait": {"A": (3,), "B": (4, 5)},
    "phase": {"A": (2,), "B": (3, 4)},
}
N_SEED_VARIANTS = 3


def meta_fields(kind):
    p = META_PREFIX[kind]
    return tuple(f"{p}_{s}" for s in META_SUFFIX)


# ----------------------------------------------------------------------------------------------------------------
# label alphabets (rotated by VERIF_SEED; structure - which uids share a group, which are duplicates - is fixed)
_GRP_PATTERN = (1, 0, 1, 0, 0, 1)            # uid -> which of the two group values; unsorted for n = 2, 3
_GRP_VALUES = [(1, 2), (3, 7), (-5, 0)]      # (low, high) per seed variant; low < high so pool B is in grouped order
_TAXA_NAMES = [
    ["tc", "ta", "td", "tb", "tf", "te"],
    ["Line_30", "Line_4", "Line_7", "Line_12", "Line_9", "Line_100"],     # string order != numeric order
    ["z", "Zb", "a", "B", "m", "M"],                                        # case-sensitive code point order
]
_VRNT_NAMES = [
    ["snp_c", "snp_a", "snp_d", "snp_b", "snp_f", "snp_e"],
    ["M30", "M4", "M7", "M12", "M9", "M100"],
    ["rs9", "rs10", "rs2", "rs33", "rs1", "rs8"],
]
_TRAIT_NAMES = [
    ["yield", "height", "protein", "oil", "zinc", "moisture"],
    ["T3", "T1", "T10", "T2", "T7", "T0"],
    ["b", "A", "c", "C", "a", "B"],
]
_PHYPOS = [
    [30, 20, 10, 40, 50, 5],
    [3000000, 200, 1, 40000, 500000, 7],
    [-1, 8, 3, 12, 20, 0],
]
_GENPOS = [0.75, 0.5, 0.25, 1.0, 1.25, 0.125]
_XOPROB = [0.5, 0.125, 0.25, 0.375, 0.4375, 0.0625]
_HAPGRP = [12, 11, 13, 10, 15, 14]
_HAPALT = ["A", "C", "G", "T", "AT", "GC"]
_HAPREF = ["C", "A", "T", "G", "GC", "AT"]
_MASK = [True, False, True, True, False, True]
_DUP_OF = {2: 0, 3: 1}                       # in the "dup" profile uid 2 repeats uid 0's labels, uid 3 uid 1's


def label(field, uid, seed=0, dup=False, maskbits=None):
    """The label an entity was created with (python scalar).  `maskbits` (int) replaces the default vrnt_mask
    table: entity uid is masked in iff bit uid is set (used to enumerate every mask)."""
    if field == "vrnt_mask" and maskbits is not None:
        return bool((maskbits >> uid) & 1)
    v = seed % N_SEED_VARIANTS
    u = _DUP_OF.get(uid, uid) if dup else uid
    if field in ("taxa_grp", "vrnt_chrgrp"):
        return _GRP_VALUES[v][_GRP_PATTERN[uid]]        # group membership is never changed by `dup`
    if field == "taxa":
        return _TAXA_NAMES[v][u]
    if field == "vrnt_name":
        return _VRNT_NAMES[v][u]
    if field == "trait":
        return _TRAIT_NAMES[v][u]
    if field == "vrnt_phypos":
        return _PHYPOS[v][u]
    # the remaining variant fields stay unique per entity also in the dup profile (so that a permutation applied
    # to one of the parallel arrays only is always visible)
    if field == "vrnt_genpos":
        return _GENPOS[uid]
    if field == "vrnt_xoprob":
        return _XOPROB[uid]
    if field == "vrnt_hapgrp":
        return _HAPGRP[uid]
    if field == "vrnt_hapalt":
        return _HAPALT[uid]
    if field == "vrnt_hapref":
        return _HAPREF[uid]
    if field == "vrnt_mask":
        return _MASK[uid]
    raise KeyError(field)


def override_value(field, v):
    """A label value different from the operand's own one (used for keyword overrides)."""
    dt = FIELD_DTYPE[field]
    if dt == "object":
        return str(v) + "_kw"
    if dt == "bool":
        return not v
    if dt == "int64":
        return int(v) + 100
    return float(v) + 0.5


# ----------------------------------------------------------------------------------------------------------------
# provenance code of a cell
class Coder:
    """Injective map (uid per physical axis) -> cell value, rotated by seed."""

    def __init__(self, phys, dtype, seed=0):
        self.phys = tuple(phys)
        self.dtype = dtype
        self.sizes = tuple(UNIVERSE[k] for k in self.phys)
        self.N = 1
        for s in self.sizes:
            self.N *= s
        self.v = seed % N_SEED_VARIANTS
        if dtype == "int8":
            assert self.N <= 256, self.N

    def index(self, uids):
        i = 0
        for u, s in zip(uids, self.sizes):
            assert 0 <= u < s
            i = i * s + u
        return i

    def value(self, uids):
        i = self.index(uids)
        if self.dtype == "int8":
            if self.v == 0:
                return i - 128
            if self.v == 1:
                return (i * 37 + 11) % 256 - 128           # 37 is a unit mod 256: still a bijection
            return 127 - i
        # float64 / int64 matrices
        if self.v == 0:
            r = i + 1
        elif self.v == 1:
            r = (i * 37 + 11) % self.N + 1000               # gcd(37, N) = 1 for all N used (N | 6^k * 5 * 2)
        else:
            r = -(i + 3)
        if self.dtype == "int64":
            return r
        return float(r) + (0.5 if self.v == 1 else 0.0)


# ----------------------------------------------------------------------------------------------------------------
# pure list operations (the documented meaning of numpy.take / delete / insert on one axis)
def _norm(i, n):
    j = i + n if i < 0 else i
    if not (0 <= j < n):
        raise IndexError(i)
    return j


def decode_arg(a):
    """JSON form -> python index object: int | {'slice': [a, b, c]} | list."""
    if isinstance(a, dict):
        return slice(*a["slice"])
    return a


def l_select(L, idx):
    n = len(L)
    return tuple(L[_norm(i, n)] for i in idx)


def l_delete(L, obj):
    n = len(L)
    if isinstance(obj, slice):
        drop = set(range(n)[obj])
    elif isinstance(obj, int):
        drop = {_norm(obj, n)}
    else:
        drop = {_norm(i, n) for i in obj}
    return tuple(e for i, e in enumerate(L) if i not in drop)


def l_insert(L, obj, new):
    n = len(L)
    k = len(new)
    if isinstance(obj, slice):
        pos = list(range(n)[obj])
    elif isinstance(obj, int):
        p = obj + n if obj < 0 else obj
        pos = [p] * k
    else:
        pos = [(p + n if p < 0 else p) for p in obj]
        if len(pos) == 1:
            pos = pos * k
    if len(pos) != k or any(not (0 <= p <= n) for p in pos) or pos != sorted(pos):
        raise IndexError(obj)
    out = []
    for i in range(n + 1):
        out.extend(e for p, e in zip(pos, new) if p == i)
        if i < n:
            out.append(L[i])
    return tuple(out)


def l_sort_perm(n, keycols):
    """Stable sort permutation; keycols = list of columns, the LAST one is the primary key."""
    cols = list(reversed(keycols))
    return sorted(range(n), key=lambda i: tuple(c[i] for c in cols))


def runs(labels):
    """Maximal runs of equal labels -> (names, stix, spix, len)."""
    names, st, sp = [], [], []
    for i, v in enumerate(labels):
        if names and names[-1] == v:
            sp[-1] = i + 1
        else:
            names.append(v)
            st.append(i)
            sp.append(i + 1)
    return names, st, sp, [b - a for a, b in zip(st, sp)]


def is_partition(labels, name, stix, spix, ln):
    """(name, stix, spix, len) describe a true contiguous partition of `labels` (oracle e)."""
    n_, st, sp, le = runs(labels)
    return (len(set(n_)) == len(n_) and list(name) == n_ and list(stix) == st and list(spix) == sp
            and list(ln) == le)


# ----------------------------------------------------------------------------------------------------------------
FREE = "free"       # grouped flag not determined by the property (after reorder on a grouped axis)


class Ref:
    """Reference state: per logical kind a tuple of (uid, cohort); which label arrays exist; grouped flags."""
    __slots__ = ("phys", "kinds", "axes", "present", "grouped", "seed", "dup", "cohort_ctr", "square", "maskbits")

    def __init__(self, phys, axes, present, grouped, seed=0, dup=False, cohort_ctr=1, maskbits=None):
        self.maskbits = maskbits
        self.phys = tuple(phys)
        self.kinds = tuple(dict.fromkeys(self.phys))
        self.axes = {k: tuple(v) for k, v in axes.items()}
        self.present = dict(present)
        self.grouped = dict(grouped)
        self.seed, self.dup = seed, dup
        self.cohort_ctr = cohort_ctr
        self.square = {k for k in self.kinds if self.phys.count(k) > 1}

    def copy(self):
        return Ref(self.phys, self.axes, self.present, self.grouped, self.seed, self.dup, self.cohort_ctr,
                   self.maskbits)

    # -- observables -------------------------------------------------------------------------------------------
    def n(self, kind):
        return len(self.axes[kind])

    def labels(self, field, kind=None):
        """Expected label list of a field, or None when that optional array is absent."""
        if not self.present.get(field, False):
            return None
        kind = kind or next(k for k, fs in KIND_FIELDS.items() if field in fs)
        return self.column(field, kind)

    def column(self, field, kind):
        return [dict(o)[field] if (o and field in dict(o)) else label(field, u, self.seed, self.dup, self.maskbits)
                for u, _, o in self.axes[kind]]

    def meta(self, kind):
        """Expected (name, stix, spix, len) if the axis is grouped, else None."""
        if self.grouped.get(kind) is not True:
            return None
        return runs(self.column(GROUP_FIELD[kind], kind))

    def cells(self, coder):
        """Expected cell values as nested python lists (None = undefined / fill)."""
        lists = [self.axes[k] for k in self.phys]

        def rec(d, picked):
            if d == len(lists):
                for k in self.square:
                    if len({c for (u, c, o), kk in zip(picked, self.phys) if kk == k}) > 1:
                        return None
                return coder.value([e[0] for e in picked])
            return [rec(d + 1, picked + [e]) for e in lists[d]]
        return rec(0, [])

    # -- validity (documented preconditions) -------------------------------------------------------------------
    def default_keys(self, kind):
        return [f for f in DEFAULT_KEYS.get(kind, ()) if self.present.get(f, False)]

    # -- transitions -------------------------------------------------------------------------------------------
    def operand_ents(self, kind, which, override=(), missing=()):
        """Entities an operand contributes; `override` = fields whose labels the call overrides by keyword;
        `missing` = name fields a raw ndarray operand does not supply (documented: filled with None)."""
        c = self.cohort_ctr
        return tuple((u, c, tuple((f, override_value(f, label(f, u, self.seed, self.dup, self.maskbits)))
                                  for f in override) + tuple((f, None) for f in missing))
                     for u in POOL[kind][which])

    def apply(self, op):
        """Return the reference state after the abstract operation `op` (dict, JSON-able).  Raises ValueError
        if the operation is not valid in this state (then it must not be generated)."""
        r = self.copy()
        kind, name = op["kind"], op["op"]
        L = self.axes[kind]
        n = len(L)
        was = self.grouped.get(kind, False)
        if name == "select":
            newL = l_select(L, op["arg"])
            g = False
        elif name == "delete":
            newL = l_delete(L, decode_arg(op["arg"]))
            g = False
        elif name in ("insert", "adjoin", "concat"):
            O = self.operand_ents(kind, op["operand"], tuple(op.get("override", ())), tuple(op.get("missing", ())))
            r.cohort_ctr = self.cohort_ctr + 1
            if name == "insert":
                newL = l_insert(L, decode_arg(op["arg"]), O)
            elif name == "concat" and op.get("first") == "operand":
                newL = O + L
            else:
                newL = L + O
            g = False
        elif name == "reorder":
            perm = op["arg"]
            if sorted(_norm(i, n) for i in perm) != list(range(n)):
                raise ValueError("not a permutation")
            newL = l_select(L, perm)
            g = FREE if was is True or was == FREE else False
        elif name in ("sort", "sort_lex"):
            keys = self.default_keys(kind)
            if not keys:
                raise ValueError("no default keys")
            perm = l_sort_perm(n, [self.column(f, kind) for f in keys])
            newL = l_select(L, perm)
            g = False
        elif name in ("sortk", "sortk_lex"):
            perm = l_sort_perm(n, self.explicit_keys(kind, op["arg"]))
            newL = l_select(L, perm)
            g = False
        elif name == "group":
            keys = self.default_keys(kind)
            if not keys:
                raise ValueError("no default keys")
            perm = l_sort_perm(n, [self.column(f, kind) for f in keys])
            newL = l_select(L, perm)
            g = bool(self.present.get(GROUP_FIELD[kind], False))
        elif name == "ungroup":
            newL = L
            g = False
        else:
            raise KeyError(name)
        if len(newL) == 0:
            raise ValueError("empty axis")
        r.axes[kind] = tuple(newL)
        if kind in GROUP_FIELD:
            r.grouped[kind] = g
        return r

    def sort_perm(self, kind, op):
        """The index array lexsort must return for a sort-type op (stable)."""
        n = self.n(kind)
        if op["op"] in ("sort", "sort_lex", "group"):
            return l_sort_perm(n, [self.column(f, kind) for f in self.default_keys(kind)])
        return l_sort_perm(n, self.explicit_keys(kind, op["arg"]))

    def explicit_keys(self, kind, which):
        """Explicit key columns (python lists) derived from the entities, so that they move with them."""
        us = [e[0] for e in self.axes[kind]]
        if which == "k1":                      # one integer key: descending uid
            return [[-u for u in us]]
        if which == "k2":                      # two keys: parity primary, uid secondary -> ties broken by 2nd key
            return [[u for u in us], [u % 2 for u in us]]
        if which == "k3":                      # constant key: stable sort must be the identity
            return [[0 for _ in us]]
        raise KeyError(which)
