"""Reference definitions of every selection criterion of pybrops.breed.prot.sel.prob (property C05).

Boring on purpose: nested python lists, loops, `fractions.Fraction` for everything that is linear or
quadratic in the data (rounded once at the end), `math.sqrt` / `statistics.NormalDist` for the two
non-rational steps.  Nothing here imports pybrops or shares code with it.

Conventions
-----------
* A *decision* is given in one of four encodings; `contributions()` turns each of them into the
  vector of parental (or cross) contributions c (Fractions, sum 1) it stands for:
    subset   (i_1..i_k)         c_i = (#occurrences of i) / k
    integer  counts  x >= 0     c_i = x_i / sum(x)
    binary   indicator x        c_i = x_i / sum(x)
    real     x >= 0, x != 0     c_i = x_i / sum(x)
* Every latent vector is what the class docstrings say: *minimising* objectives, i.e. the negative
  of the quantity that is to be maximised (mean breeding value, usefulness, OHV, OPV, MEH ...), the
  plain value of what is to be minimised (relationship, distance, unavailability).
* "kinship" K is half the coancestry/relationship matrix (the library's `mat_asformat("kinship")`).
"""
from __future__ import annotations
import itertools
import math
from fractions import Fraction as Fr
from statistics import NormalDist


# --------------------------------------------------------------------------------------------
# decisions -> contributions
def F(v):
    """Exact rational value of a python/numpy scalar (floats are dyadic rationals)."""
    if isinstance(v, Fr):
        return v
    if isinstance(v, (bool, int)):
        return Fr(int(v))
    return Fr(float(v))


def contributions(enc, x, N):
    """Contribution vector (tuple of Fractions of length N, sum 1) encoded by decision x."""
    if enc == "subset":
        k = len(x)
        assert k > 0
        c = [Fr(0)] * N
        for i in x:
            assert 0 <= int(i) < N
            c[int(i)] += Fr(1, k)
        return tuple(c)
    xs = [F(v) for v in x]
    assert len(xs) == N and all(v >= 0 for v in xs)
    s = sum(xs)
    assert s > 0, "the zero vector encodes no contributions"
    return tuple(v / s for v in xs)


def members_of(enc, x):
    """Multiset of selected members for the set-valued criteria (subset encoding only)."""
    assert enc == "subset"
    return sorted(int(i) for i in x)


# --------------------------------------------------------------------------------------------
# linear / quadratic pieces
def wmean(c, mat):
    """[sum_i c_i mat[i][t]] for every column t (exact)."""
    nt = len(mat[0])
    return [sum(ci * F(mat[i][t]) for i, ci in enumerate(c) if ci) for t in range(nt)]


def quad(c, K):
    """c' K c (exact)."""
    n = len(c)
    return sum(c[i] * c[j] * F(K[i][j]) for i in range(n) for j in range(n) if c[i] and c[j])


def sqrt_quad(c, K):
    q = quad(c, K)
    return math.sqrt(float(q)) if q > 0 else 0.0


# --------------------------------------------------------------------------------------------
# latent vectors, one function per criterion
def lat_mean_value(c, values):
    """EBV / GEBV / wGEBV / gwGEBV / random BV / UC / OHV / EMBV: negative contribution-weighted mean of the
    per-candidate (taxon or cross) value matrix (N,t)."""
    return [float(-v) for v in wmean(c, values)]


def lat_ocs(c, K, bv):
    """Optimal contribution: [sqrt(c'Kc), -mean breeding values...]."""
    return [sqrt_quad(c, K)] + [float(-v) for v in wmean(c, bv)]


def lat_mgr(c, K):
    """Mean genomic relationship: sqrt(c'Kc)."""
    return [sqrt_quad(c, K)]


def lat_meh(c, K):
    """Negative mean expected heterozygosity, in the library's documented form -(1 - ||Cc||) with K = C'C."""
    return [-(1.0 - sqrt_quad(c, K))]


def lat_l1(c, mkrwt, tafreq, tfreq):
    """L1 distance of the selection's allele frequencies to the target, per trait:
    sum_p | w_pt * (sum_i c_i f_ip - target_pt) |."""
    p, t = len(mkrwt), len(mkrwt[0])
    out = []
    for tt in range(t):
        tot = Fr(0)
        for l in range(p):
            pbar = sum(ci * F(tafreq[i][l]) for i, ci in enumerate(c) if ci)
            tot += abs(F(mkrwt[l][tt]) * (pbar - F(tfreq[l][tt])))
        out.append(float(tot))
    return out


def lat_l2(c, Ks):
    """L2 criterion: one relationship matrix per trait, sqrt(c'K_t c)."""
    return [sqrt_quad(c, K) for K in Ks]


def lat_family(c, bv, famid):
    """Family EBV: [-mean breeding values..., -(share of every family, families in sorted order)]."""
    fams = sorted(set(famid))
    share = [sum((ci for i, ci in enumerate(c) if famid[i] == f), Fr(0)) for f in fams]
    return [float(-v) for v in wmean(c, bv)] + [float(-s) for s in share]


def block_values(phased, u, blocks):
    """hv[phase][taxon][block][trait] = sum over the block's markers of allele * effect."""
    nt = len(u[0])
    return [[[[sum(F(phased[ph][i][l]) * F(u[l][t]) for l in blk) for t in range(nt)] for blk in blocks]
             for i in range(len(phased[0]))] for ph in range(len(phased))]


def best_haploid(hv, members):
    """per trait: sum over blocks of the best block value among all phases of all members."""
    nph, nb, nt = len(hv), len(hv[0][0]), len(hv[0][0][0])
    return [sum(max(hv[ph][i][b][t] for ph in range(nph) for i in members) for b in range(nb)) for t in range(nt)]


def lat_opv(hv, members):
    """Optimal population value: -ploidy * sum_blocks max_{members, phases} block value."""
    ploidy = len(hv)
    return [float(-ploidy * v) for v in best_haploid(hv, members)]


def ohv_of_cross(hv, parents):
    """Optimal haploid value of one cross (a positive quantity): ploidy * sum_blocks max over parents, phases."""
    ploidy = len(hv)
    return [ploidy * v for v in best_haploid(hv, list(parents))]


def lat_gb(hv, members, nbest):
    """Genotype builder: per block take every member's better phase, keep the nbest largest of those over
    the members, average them; sum over blocks; times ploidy; negated."""
    nph, nb, nt = len(hv), len(hv[0][0]), len(hv[0][0][0])
    out = []
    for t in range(nt):
        tot = Fr(0)
        for b in range(nb):
            best = sorted((max(hv[ph][i][b][t] for ph in range(nph)) for i in members), reverse=True)
            tot += sum(best[:nbest], Fr(0)) / nbest
        out.append(float(-nph * tot))
    return out


def sel_freq(geno, ploidy, members):
    """Allele frequency of the selection at every marker (members with multiplicity)."""
    k = len(members)
    return [sum(F(geno[i][l]) for i in members) / (ploidy * k) for l in range(len(geno[0]))]


def lat_pafd(geno, ploidy, mkrwt, tfreq, members):
    pf = sel_freq(geno, ploidy, members)
    nt = len(mkrwt[0])
    return [float(sum(F(mkrwt[l][t]) * abs(F(tfreq[l][t]) - pf[l]) for l in range(len(pf)))) for t in range(nt)]


def unavailable(pf, target):
    """Truth table of 'the target frequency can NOT be reached from a population with frequency pf'
    (no mutation): target 0 needs the 0-allele present (pf < 1); target 1 needs the 1-allele present
    (pf > 0); an intermediate target needs both."""
    if target <= 0:
        return not (pf < 1)
    if target >= 1:
        return not (pf > 0)
    return not (0 < pf < 1)


def lat_pau(geno, ploidy, mkrwt, tfreq, members):
    pf = sel_freq(geno, ploidy, members)
    nt = len(mkrwt[0])
    return [float(sum(F(mkrwt[l][t]) for l in range(len(pf)) if unavailable(pf[l], F(tfreq[l][t])))) for t in range(nt)]


def lat_mogs(geno, ploidy, mkrwt, tfreq, members):
    return lat_pau(geno, ploidy, mkrwt, tfreq, members) + lat_pafd(geno, ploidy, mkrwt, tfreq, members)


# --------------------------------------------------------------------------------------------
# data a factory has to derive from a population (all in the population's row order)
def counts_of(phased):
    return [[sum(int(phased[ph][i][l]) for ph in range(len(phased))) for l in range(len(phased[0][0]))]
            for i in range(len(phased[0]))]


def gebv(counts, u, intercept):
    """Genomic estimated breeding values of an additive linear model: intercept_t + sum_l count_il u_lt."""
    return [[float(F(intercept[t]) + sum(F(counts[i][l]) * F(u[l][t]) for l in range(len(u))))
             for t in range(len(u[0]))] for i in range(len(counts))]


def standardize(mat):
    """Column-wise (x - mean)/sd with the population sd; a constant column keeps sd 1."""
    n, t = len(mat), len(mat[0])
    out = [[0.0] * t for _ in range(n)]
    for j in range(t):
        col = [float(mat[i][j]) for i in range(n)]
        mu = math.fsum(col) / n
        sd = math.sqrt(math.fsum((v - mu) ** 2 for v in col) / n)
        if sd == 0.0:
            sd = 1.0
        for i in range(n):
            out[i][j] = (col[i] - mu) / sd
    return out


def unscaled(mat, location, scale):
    return [[float(F(scale[t]) * F(mat[i][t]) + F(location[t])) for t in range(len(mat[0]))] for i in range(len(mat))]


def allele_freq(counts, ploidy):
    n = len(counts)
    return [Fr(sum(counts[i][l] for i in range(n)), ploidy * n) for l in range(len(counts[0]))]


def fav_allele_freq(counts, ploidy, u):
    """(p,t): frequency of the favourable allele: the counted allele where the effect is positive, the other
    one where it is negative, 0 where the effect is 0."""
    af = allele_freq(counts, ploidy)
    return [[(af[l] if F(u[l][t]) > 0 else (1 - af[l]) if F(u[l][t]) < 0 else Fr(0)) for t in range(len(u[0]))]
            for l in range(len(u))]


def gwgebv(counts, u, fafreq, alpha):
    """Generalised weighted GEBV: sum_l count_il * u_lt * fafreq_lt^(-alpha); a favourable-allele frequency of 0
    gets weight 1 (there is nothing to up-weight)."""
    out = []
    for i in range(len(counts)):
        row = []
        for t in range(len(u[0])):
            tot = 0.0
            terms = []
            for l in range(len(u)):
                f = float(fafreq[l][t])
                w = 1.0 if f == 0.0 else f ** (-alpha)
                terms.append(counts[i][l] * float(u[l][t]) * w)
            row.append(math.fsum(terms))
        out.append(row)
    return out


def wgebv_arcsine(counts, u, fafreq):
    """Weighted GEBV of the wGEBV *matrix* class: marker weight (pi/2 - asin(sqrt p)) / sqrt(p(1-p)) for a favourable
    allele frequency 0 < p < 1, weight 1 for p = 0 (the documented branch); p = 1 is outside the domain (0/0)."""
    out = []
    for i in range(len(counts)):
        row = []
        for t in range(len(u[0])):
            terms = []
            for l in range(len(u)):
                f = float(fafreq[l][t])
                assert f < 1.0
                w = 1.0 if f == 0.0 else (math.asin(1.0) - math.asin(math.sqrt(f))) / math.sqrt(f * (1.0 - f))
                terms.append(counts[i][l] * float(u[l][t]) * w)
            row.append(math.fsum(terms))
        out.append(row)
    return out


def embv_of_taxon(replicate_progeny_counts, u, intercept):
    """Expected maximum breeding value of ONE taxon: mean over its own replicates of the largest progeny GEBV
    (per trait); replicate_progeny_counts[r] = allele-count rows of the progeny simulated in replicate r."""
    nt = len(u[0])
    best = []
    for cnt in replicate_progeny_counts:
        g = gebv(cnt, u, intercept)
        best.append([max(row[t] for row in g) for t in range(nt)])
    return [math.fsum(b[t] for b in best) / len(best) for t in range(nt)]


def tafreq(counts, ploidy):
    return [[Fr(counts[i][l], ploidy) for l in range(len(counts[0]))] for i in range(len(counts))]


def kin_molecular(counts, ploidy=2):
    """Molecular (identity-by-state) kinship: probability that an allele drawn from i and one drawn from j at a
    random marker are alike."""
    n, m = len(counts), len(counts[0])
    K = [[None] * n for _ in range(n)]
    for i in range(n):
        for j in range(n):
            tot = Fr(0)
            for l in range(m):
                pi, pj = Fr(counts[i][l], ploidy), Fr(counts[j][l], ploidy)
                tot += pi * pj + (1 - pi) * (1 - pj)
            K[i][j] = tot / m
    return K


def kin_vanraden(counts, ploidy=2):
    """VanRaden (2008) method 1 relationship matrix halved: Z Z' / (ploidy * sum p(1-p)) / 2, Z centred by the
    population's own allele frequencies."""
    n, m = len(counts), len(counts[0])
    af = allele_freq(counts, ploidy)
    den = ploidy * sum(p * (1 - p) for p in af)
    Z = [[Fr(counts[i][l]) - ploidy * af[l] for l in range(m)] for i in range(n)]
    return [[sum(Z[i][l] * Z[j][l] for l in range(m)) / den / 2 for j in range(n)] for i in range(n)]


def kin_weighted(counts, ploidy, w, target):
    """Generalised weighted relationship halved: sum_l w_l (x_il - ploidy a_l)(x_jl - ploidy a_l) / 2."""
    n, m = len(counts), len(counts[0])
    Z = [[Fr(counts[i][l]) - ploidy * F(target[l]) for l in range(m)] for i in range(n)]
    return [[sum(F(w[l]) * Z[i][l] * Z[j][l] for l in range(m)) / 2 for j in range(n)] for i in range(n)]


def is_clearly_pd(K, tol=1e-6):
    """Cholesky in floats with a margin (so that no jitter can be needed)."""
    n = len(K)
    A = [[float(K[i][j]) for j in range(n)] for i in range(n)]
    L = [[0.0] * n for _ in range(n)]
    for i in range(n):
        for j in range(i + 1):
            s = A[i][j] - math.fsum(L[i][k] * L[j][k] for k in range(j))
            if i == j:
                if s <= tol:
                    return False
                L[i][i] = math.sqrt(s)
            else:
                L[i][j] = s / L[j][j]
    return True


def cross_map(n, d, unique):
    """All parent combinations of the upper triangle (without / with the diagonal), as a set of tuples."""
    it = itertools.combinations(range(n), d) if unique else itertools.combinations_with_replacement(range(n), d)
    return [tuple(r) for r in it]


def selection_intensity(upper_percentile):
    """i = pdf(z)/p with z the (1-p) quantile of the standard normal."""
    nd = NormalDist()
    return nd.pdf(nd.inv_cdf(1.0 - upper_percentile)) / upper_percentile


def usefulness(bv, parents, epgc, variance, intensity):
    """UC of one cross per trait: expected progeny mean (parental GEBVs weighted by the expected parental genome
    contributions) + i * sqrt(progeny variance)."""
    nt = len(bv[0])
    return [float(sum(F(e) * F(bv[p][t]) for e, p in zip(epgc, parents))) + intensity * math.sqrt(float(variance[t]))
            for t in range(nt)]


# --------------------------------------------------------------------------------------------
# transformations of the latent vector (the four the library ships + user supplied ones are applied by the check)
def t_identity(x, lat):
    return list(lat)


def t_sum(x, lat):
    return [math.fsum(lat)]


def t_dot(x, lat, w):
    return [math.fsum(a * b for a, b in zip(w, lat))]


def t_empty(x, lat):
    return []


def weighted(wt, vec):
    assert len(wt) == len(vec)
    return [float(a) * float(b) for a, b in zip(wt, vec)]
