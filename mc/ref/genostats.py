"""Reference model for genotype summary statistics (C09) and selection limits (C10).

Everything is integer counting over the raw allele calls and `fractions.Fraction`
arithmetic; floats appear only by rounding a Fraction once.  No numpy here and
no code shared with the library.

A *column* (one locus of a population) is a tuple over taxa of tuples over
chromosome copies of allele calls in {0,1}:   ((a00, a01), (a10, a11), ...).
"""
from fractions import Fraction


def column_ref(col, ploidy):
    """Textbook statistics of one locus.  Returns a dict of exact values."""
    n = len(col)
    assert n >= 1 and all(len(t) == ploidy for t in col)
    tac = [sum(t) for t in col]                       # per-taxon count of the 1 allele
    taf = [Fraction(c, ploidy) for c in tac]          # per-taxon frequency
    ac = sum(tac)                                     # population count
    d = ploidy * n
    af = Fraction(ac, d)                              # population frequency
    copies = [a for t in col for a in t]
    fixed = all(a == copies[0] for a in copies)       # every chromosome copy carries the same allele
    assert fixed == (ac == 0 or ac == d)
    maf = min(af, 1 - af)
    gtc = [sum(1 for c in tac if c == k) for k in range(ploidy + 1)]   # genotype classes 0..ploidy
    assert sum(gtc) == n
    gtf = [Fraction(c, n) for c in gtc]
    het = af * (1 - af)                               # p(1-p)
    # codings (diploid meaning): {0,1,2} = count; {-1,0,1} = count-1; {-1,m,1}: heterozygotes carry the
    # column mean of the {-1,0,1} coding
    c101 = [c - 1 for c in tac]
    mean101 = Fraction(sum(c101), n)
    c1m1 = [Fraction(v) if v != 0 else mean101 for v in c101]
    return dict(n=n, d=d, tacount=tac, tafreq=taf, acount=ac, afreq=af, fixed=fixed, maf=maf,
                gtcount=gtc, gtfreq=gtf, pq=het, c012=tac, c101=c101, c1m1=c1m1,
                homoz=[c == 0 or c == ploidy for c in tac])


def meh_ref(cols, ploidy):
    """Mean expected heterozygosity  (ploidy / nloci) * sum_j p_j (1 - p_j)   (= mean 2pq for diploids)."""
    m = len(cols)
    return Fraction(ploidy, m) * sum((c["pq"] for c in cols), Fraction(0))


def reciprocal_rounds(d):
    """True iff multiplying by the rounded reciprocal 1.0/d does not give d * (1/d) == 1 in binary64
    (d = 98, 196, 206, 214, ...): the population sizes at which a frequency computed as
    (1.0/d) * count misses the exact value 1 at a fixed locus."""
    return (1.0 / d) * d != 1.0


# ----------------------------------------------------------------------------
# selection limits (C10): attainable extreme of an additive model given the alleles present
def allele_presence(pop):
    """pop: list of individuals, each a tuple of `ploidy` haplotype tuples.  Returns per locus the set of
    alleles present."""
    m = len(pop[0][0])
    out = [set() for _ in range(m)]
    for ind in pop:
        for hap in ind:
            for j, a in enumerate(hap):
                out[j].add(int(a))
    return out


def gebv_ref(ind, u):
    """Breeding value (without intercept) of one individual for one trait: sum_j (count of allele 1)_j * u_j."""
    m = len(u)
    return sum((Fraction(sum(h[j] for h in ind)) * Fraction(u[j]) for j in range(m)), Fraction(0))


def is_fixed(pop):
    return all(len(s) == 1 for s in allele_presence(pop))
