"""Environment control for C08: every source of *fresh* entropy and time is owned by the harness.

* `Env`           context manager that intercepts, for the duration of one execution,
                  os.urandom / random._urandom (this also serves numpy's C-level SeedSequence(None),
                  PCG64(), RandomState(), default_rng() — they all end in `secrets.randbits` ->
                  `random._urandom`), random.seed(None) / random.Random().seed(None),
                  numpy.random.seed(None), numpy.random.default_rng(None), numpy.random.SeedSequence(None)
                  and time.time / time_ns / monotonic / perf_counter (+ _ns).
                  Requests are answered with *deterministic* fake entropy (a function of the entropy
                  variant and a request counter) and a *virtual* clock (a function of the clock variant
                  and a read counter), so executions stay bit-reproducible, and each request made while
                  `recording` is logged with the requesting frame and the innermost pybrops frame.
                  Running the same program under two entropy variants / two clock variants decides
                  whether the *outputs* depend on OS entropy / the clock.
* global-state helpers: the explored state is the pair (python `random` state, numpy global RandomState state).
* `ser`           bit-exact canonical serialisation of library outputs (no float normalisation).
* `blame_global_draws` re-runs a callable under sys.setprofile and attributes every advance of a global
                  stream to the pybrops frame responsible for it (see the docstring for the rule).
* `hidden_generators` scans the imported pybrops modules for generator objects other than numpy's global
                  RandomState (state outside the explored pair).
"""
from __future__ import annotations
import hashlib, os, random, sys, time, types

import numpy

from .. import compat  # noqa: F401

REPO_PKG = os.path.join(os.path.realpath(compat.REPO), "pybrops") + os.sep
_THIS = os.path.realpath(__file__)
_SKIP_FILES = tuple(os.path.realpath(getattr(m, "__file__", "") or "") for m in (random,)) + (_THIS,)
_SKIP_BASENAMES = {"secrets.py", "uuid.py", "random.py"}

GLOBAL_NP = numpy.random.mtrand._rand           # numpy's legacy global RandomState (= prng.global_prng)


# ----------------------------------------------------------------------------
# frames
def _is_pybrops(fn):
    return _fileinfo(fn)[1]


def _qual(code):
    """Class.method for methods; module.function for module-level functions (two modules define a tiled_choice)."""
    q = getattr(code, "co_qualname", code.co_name)
    if "." not in q:
        q = os.path.splitext(os.path.basename(code.co_filename))[0] + "." + q
    return q


def _modname(fn):
    fn = os.path.realpath(fn)
    for marker in ("site-packages" + os.sep, "lib" + os.sep + "python3.12" + os.sep):
        i = fn.rfind(marker)
        if i >= 0:
            fn = fn[i + len(marker):]
            break
    else:
        if fn.startswith(REPO_PKG):
            fn = "pybrops" + os.sep + fn[len(REPO_PKG):]
        else:
            fn = os.path.basename(fn)
    if fn.endswith(".py"):
        fn = fn[:-3]
    return fn.replace(os.sep, ".")


_FILEINFO = {}


def _fileinfo(fn):
    """(is_plumbing, is_pybrops, module label) of a code filename, cached."""
    r = _FILEINFO.get(fn)
    if r is None:
        rfn = os.path.realpath(fn)
        r = (rfn in _SKIP_FILES or os.path.basename(rfn) in _SKIP_BASENAMES, rfn.startswith(REPO_PKG), _modname(fn))
        _FILEINFO[fn] = r
    return r


def stack_sites(frame):
    """(requester, pybrops_site, short stack) for a frame chain starting at the caller of a tripwire.
    requester = first frame that is neither this module nor random/secrets/uuid plumbing;
    pybrops_site = innermost frame whose code lives in <repo>/pybrops."""
    requester = None
    site = None
    short = []
    f = frame
    while f is not None:
        plumbing, is_pb, mod = _fileinfo(f.f_code.co_filename)
        if not plumbing:
            if requester is None:
                requester = f"{mod}:{_qual(f.f_code)}"
            if site is None and is_pb:
                site = _qual(f.f_code)
            if len(short) < 12:
                short.append(f"{mod}:{_qual(f.f_code)}:{f.f_lineno}")
        f = f.f_back
    return requester or "?", site, short


# ----------------------------------------------------------------------------
class Env:
    """One instance per process; `with ENV.run(entropy=0, clock=0): ...` per execution."""

    CLOCK_BASE = (1_700_000_000.0, 1_913_377_331.123)

    def __init__(self):
        self.depth = 0
        self.recording = False
        self.records = []          # dicts: api, requester, site, stack
        self.clock_reads = 0
        self.clock_sites = set()
        self.entropy_variant = 0
        self.clock_variant = 0
        self._n_entropy = 0
        self._n_clock = 0
        self._busy = False
        self._saved = None

    # -- fake sources --------------------------------------------------------
    def _bytes(self, n):
        self._n_entropy += 1
        out = b""
        i = 0
        while len(out) < n:
            out += hashlib.blake2b(f"c08-entropy:{self.entropy_variant}:{self._n_entropy}:{i}".encode(),
                                   digest_size=32).digest()
            i += 1
        return out[:n]

    def _int(self, bits):
        return int.from_bytes(self._bytes((bits + 7) // 8), "little") & ((1 << bits) - 1)

    def _tick(self):
        self._n_clock += 1
        return self.CLOCK_BASE[self.clock_variant] + 0.001 * self._n_clock

    def _note(self, api):
        if self.recording and not self._busy:
            requester, site, short = stack_sites(sys._getframe(2))
            self.records.append({"api": api, "requester": requester, "site": site, "stack": short})

    def _note_clock(self):
        self.clock_reads += 1
        if self.recording:
            _, site, _ = stack_sites(sys._getframe(2))
            if site:
                self.clock_sites.add(site)

    # -- patched entry points ------------------------------------------------
    def _urandom(self, n):
        self._note("os.urandom")
        return self._bytes(n)

    def _py_seed(self, a=None, version=2):
        if a is None:
            self._note("random.seed(None)")
            a = self._int(64)
        return self._saved["random.seed"](a, version)

    def _np_seed(self, seed=None):
        if seed is None:
            self._note("numpy.random.seed(None)")
            seed = self._int(32)
        return self._saved["numpy.random.seed"](seed)

    def _default_rng(self, seed=None):
        if seed is None:
            self._note("numpy.random.default_rng(None)")
            seed = self._int(128)
        return self._saved["numpy.random.default_rng"](seed)

    def reset_counters(self):
        """Called at the re-seeding point: what follows sees the same fake entropy / clock
        whatever came before."""
        self._n_entropy = 0
        self._n_clock = 0

    def start_recording(self):
        self.reset_counters()
        self.recording = True
        self.records = []
        self.clock_reads = 0
        self.clock_sites = set()

    def stop_recording(self):
        self.recording = False

    # -- install / remove ----------------------------------------------------
    def run(self, entropy=0, clock=0):
        return _EnvCtx(self, entropy, clock)

    def _install(self):
        env = self
        S = self._saved = {
            "os.urandom": os.urandom, "random._urandom": random._urandom,
            "random.seed": random.seed, "random.Random.seed": random.Random.seed,
            "numpy.random.seed": numpy.random.seed, "numpy.random.default_rng": numpy.random.default_rng,
            "numpy.random.SeedSequence": numpy.random.SeedSequence,
            "time.time": time.time, "time.time_ns": time.time_ns, "time.monotonic": time.monotonic,
            "time.monotonic_ns": time.monotonic_ns, "time.perf_counter": time.perf_counter,
            "time.perf_counter_ns": time.perf_counter_ns,
        }
        os.urandom = self._urandom
        random._urandom = self._urandom
        random.seed = self._py_seed
        orig_cls_seed = S["random.Random.seed"]

        def cls_seed(self_, a=None, version=2):
            if a is None and not isinstance(self_, random.SystemRandom):
                env._note("random.Random.seed(None)")
                a = env._int(64)
            return orig_cls_seed(self_, a, version)
        random.Random.seed = cls_seed
        numpy.random.seed = self._np_seed
        numpy.random.default_rng = self._default_rng
        OrigSS = S["numpy.random.SeedSequence"]

        class SeedSequence(OrigSS):
            def __init__(self_, entropy=None, **kw):
                if entropy is None:
                    env._note("numpy.random.SeedSequence(None)")
                    entropy = env._int(128)
                env._busy = True
                try:
                    super().__init__(entropy, **kw)
                finally:
                    env._busy = False
        numpy.random.SeedSequence = SeedSequence

        def t_time():
            env._note_clock(); return env._tick()

        def t_ns():
            env._note_clock(); return int(env._tick() * 1e9)
        time.time = t_time
        time.monotonic = t_time
        time.perf_counter = t_time
        time.time_ns = t_ns
        time.monotonic_ns = t_ns
        time.perf_counter_ns = t_ns

    def _remove(self):
        S = self._saved
        os.urandom = S["os.urandom"]
        random._urandom = S["random._urandom"]
        random.seed = S["random.seed"]
        random.Random.seed = S["random.Random.seed"]
        numpy.random.seed = S["numpy.random.seed"]
        numpy.random.default_rng = S["numpy.random.default_rng"]
        numpy.random.SeedSequence = S["numpy.random.SeedSequence"]
        for k in ("time", "time_ns", "monotonic", "monotonic_ns", "perf_counter", "perf_counter_ns"):
            setattr(time, k, S["time." + k])
        self._saved = None


class _EnvCtx:
    def __init__(self, env, entropy, clock):
        self.env, self.entropy, self.clock = env, entropy, clock

    def __enter__(self):
        e = self.env
        if e.depth == 0:
            e._install()
        e.depth += 1
        e.entropy_variant, e.clock_variant = self.entropy, self.clock
        e.reset_counters()
        e.recording = False
        e.records = []
        e.clock_reads = 0
        e.clock_sites = set()
        return e

    def __exit__(self, *exc):
        e = self.env
        e.recording = False
        e.depth -= 1
        if e.depth == 0:
            e._remove()
        return False


ENV = Env()


def entropy_sig(rec):
    return f"os-entropy:{rec['api']}<-{rec['requester']}@{rec['site'] or 'no-pybrops-frame'}"


# ----------------------------------------------------------------------------
# the explored state
def get_pair():
    return random.getstate(), GLOBAL_NP.get_state(legacy=False)


def set_pair(pair):
    random.setstate(pair[0])
    GLOBAL_NP.set_state(pair[1])


def _np_state_tuple(d):
    st = d["state"]
    return (d["bit_generator"], st["key"].tobytes(), int(st["pos"]), int(d["has_gauss"]),
            float(d["gauss"]).hex() if d["has_gauss"] else "-")


def pair_parts(pair):
    """(python part, numpy part) as hashable bit-exact values.  A cached gaussian is part of the state
    only while has_gauss is set (numpy keeps a stale value otherwise)."""
    return (pair[0], _np_state_tuple(pair[1]))


def pair_digest(pair):
    return hashlib.blake2b(repr(pair_parts(pair)).encode(), digest_size=8).digest()


def gen_state(g):
    """Bit-exact state of an explicit Generator / RandomState."""
    if isinstance(g, numpy.random.RandomState):
        return ("RandomState",) + _np_state_tuple(g.get_state(legacy=False))
    return ("Generator", ser(g.bit_generator.state))


# ----------------------------------------------------------------------------
# bit-exact serialisation of outputs
def ser(x, _depth=0):
    if _depth > 8:
        return ("deep", type(x).__name__)
    if x is None or isinstance(x, (bool, int, str, bytes)):
        return x
    if isinstance(x, float):
        return ("f", x.hex())
    if isinstance(x, numpy.ndarray):
        if x.dtype == object:
            return ("ao", x.shape, tuple(ser(v, _depth + 1) for v in x.ravel().tolist()))
        return ("a", x.dtype.str, x.shape, numpy.ascontiguousarray(x).tobytes())
    if isinstance(x, numpy.generic):
        return ("g", x.dtype.str, x.tobytes())
    if isinstance(x, (list, tuple)):
        return tuple(ser(v, _depth + 1) for v in x)
    if isinstance(x, dict):
        return tuple((str(k), ser(v, _depth + 1)) for k, v in sorted(x.items(), key=lambda kv: str(kv[0])))
    if isinstance(x, (numpy.random.Generator, numpy.random.RandomState)):
        return gen_state(x)
    try:
        import pandas
        if isinstance(x, pandas.DataFrame):
            return ("df", tuple(str(c) for c in x.columns), tuple(ser(x[c].to_numpy(), _depth + 1) for c in x.columns))
    except ImportError:
        pass
    # library objects: labelled matrices, solutions, configurations
    fields = []
    for f in ("mat", "taxa", "taxa_grp", "trait", "location", "scale", "soln_decn", "soln_obj", "soln_ineqcv",
              "soln_eqcv", "xconfig", "xconfig_decn", "nmating", "nprogeny"):
        try:
            v = getattr(x, f)
        except Exception:
            continue
        if v is None or isinstance(v, (numpy.ndarray, numpy.generic, int, float, str)):
            fields.append((f, ser(v, _depth + 1)))
    if fields:
        return ("obj", type(x).__name__, tuple(fields))
    raise TypeError(f"ser: unsupported output type {type(x).__name__}")


def dig(x):
    return hashlib.blake2b(repr(x).encode("utf8", "surrogatepass"), digest_size=8).hexdigest()


# ----------------------------------------------------------------------------
# attribution of global-stream draws to pybrops call sites
def _rng_view(frame):
    """What this frame 'knows' as its generator: a local named rng / random_state, else self._rng."""
    loc = frame.f_locals
    for k in ("rng", "random_state"):
        if k in loc and isinstance(loc[k], (numpy.random.Generator, numpy.random.RandomState)):
            return loc[k]
    s = loc.get("self")
    if s is not None:
        try:
            v = s.__dict__.get("_rng")
        except Exception:
            v = None
        if isinstance(v, (numpy.random.Generator, numpy.random.RandomState)):
            return v
    return None


def blame_global_draws(fn):
    """Run fn() under a profiler and return a sorted list of (stream, site) with stream in {"numpy","python"}:
    every advance of numpy's global RandomState / python's global `random` state is attributed to a pybrops frame.

    Rule: take the innermost pybrops frame that was executing when the stream advanced.  If that frame was *handed*
    the global generator (its local `rng` / its object's `_rng` *is* numpy's global RandomState) it only did what it
    was told, so walk outwards through the pybrops frames until one whose generator view is not the global generator
    (it holds the caller's explicit generator, or none at all): that frame is where the explicit generator was
    dropped / where the global stream was chosen, and it is blamed."""
    stack = []          # live pybrops frames, outermost first
    found = set()
    last = [_fp()]

    def check():
        cur = _fp()
        if cur != last[0]:
            streams = [s for s, a, b in (("python", cur[0], last[0][0]), ("numpy", cur[1], last[0][1])) if a != b]
            last[0] = cur
            site = None
            for fr in reversed(stack):
                v = _rng_view(fr)
                if v is GLOBAL_NP:
                    continue
                site = _qual(fr.f_code)
                break
            if site is None:
                site = _qual(stack[0].f_code) if stack else "no-pybrops-frame"
            for s in streams:
                found.add((s, site))

    def prof(frame, event, arg):
        # every draw happens between two consecutive boundary events of pybrops frames, and between two such
        # events the innermost pybrops frame is constant (= stack top): checking at the boundaries is exact
        if event == "call":
            if _fileinfo(frame.f_code.co_filename)[1]:
                check()
                stack.append(frame)
        elif event == "return":
            if stack and stack[-1] is frame:
                check()
                stack.pop()

    old = sys.getprofile()
    sys.setprofile(prof)
    try:
        fn()
    finally:
        sys.setprofile(old)
    return sorted(found)


def _fp():
    st = GLOBAL_NP.get_state(legacy=False)
    return (hash(random.getstate()), (int(st["state"]["pos"]), int(st["has_gauss"]), st["state"]["key"][:8].tobytes()))


# ----------------------------------------------------------------------------
def hidden_generators():
    """Generator-like objects reachable from pybrops module globals / class attributes, other than numpy's
    global RandomState.  Each is state outside the explored (python, numpy) pair."""
    out = []
    kinds = (numpy.random.Generator, numpy.random.RandomState, numpy.random.BitGenerator, random.Random,
             numpy.random.SeedSequence)
    for name in sorted(sys.modules):
        if not (name == "pybrops" or name.startswith("pybrops.")):
            continue
        mod = sys.modules[name]
        if mod is None:
            continue
        for k in sorted(vars(mod)):
            v = vars(mod)[k]
            if isinstance(v, kinds) and v is not GLOBAL_NP and v is not random._inst:
                out.append(f"{name}.{k}")
            elif isinstance(v, type) and getattr(v, "__module__", None) == name:
                for ck in sorted(vars(v)):
                    cv = vars(v)[ck]
                    if isinstance(cv, kinds) and cv is not GLOBAL_NP and cv is not random._inst:
                        out.append(f"{name}.{k}.{ck}")
            elif isinstance(v, types.MethodType) or type(v).__name__ == "builtin_function_or_method":
                owner = getattr(v, "__self__", None)
                if isinstance(owner, kinds) and owner is not GLOBAL_NP and owner is not random._inst:
                    out.append(f"{name}.{k}")
    return out
