"""Reference definitions for C04 (linear genomic models), written from the textbook
definitions with nested loops over python ints / ``fractions.Fraction``.

Nothing here imports pybrops or numpy: genotypes are nested lists of ints, effects
are nested lists of Fractions.  Every function is a direct transcription of a
definition:

* dosage of taxon i at marker j   = number of copies of the allele coded ``1``
* heterozygosity indicator         = 1 iff 0 < dosage < ploidy
* value of taxon i for trait k     = intercept_k + sum_j dosage_ij * a_jk (+ sum_j het_ij * d_jk)
* intercept contrast (documented in the library: first fixed effect is the corner,
  the remaining q-1 rows are averaged with weight 1/q)
* population variance              = sum (v - mean)^2 / n
* additive genic variance          = ploidy^2 * sum_j a_jk^2 p_j (1 - p_j)
* Bulmer ratio                     = additive genetic variance / additive genic variance (NaN if 0)
* R^2                              = 1 - SSE / SST
* favourable allele of marker j for trait k = allele ``1`` if a_jk > 0, allele ``0`` if a_jk < 0,
  none if a_jk == 0 (neutral); deleterious: the other way round
* selection limits                 = brute force over every genotype that can be assembled from the
  alleles present in the population (max / min of the homozygous value)
"""
from __future__ import annotations
from fractions import Fraction as Fr
import itertools
import math

NAN = "nan"     # marker for "undefined (division by zero)" in reference results


# ----------------------------------------------------------------------------
# raw genotypes
def dosage_from_phased(ph):
    """ph[p][i][j] in {0,1}  ->  A[i][j] = number of allele-1 copies."""
    P, n, m = len(ph), len(ph[0]), len(ph[0][0])
    A = [[0] * m for _ in range(n)]
    for i in range(n):
        for j in range(m):
            c = 0
            for p in range(P):
                c += 1 if ph[p][i][j] == 1 else 0
            A[i][j] = c
    return A


def het(A, ploidy):
    """H[i][j] = 1 iff taxon i carries both alleles at marker j."""
    return [[1 if 0 < a < ploidy else 0 for a in row] for row in A]


def allele_copies(A, ploidy):
    """(c1[j], c0[j]) = number of copies of allele 1 / allele 0 over all taxa, counted per taxon."""
    n, m = len(A), len(A[0])
    c1, c0 = [0] * m, [0] * m
    for j in range(m):
        for i in range(n):
            c1[j] += A[i][j]
            c0[j] += ploidy - A[i][j]
    return c1, c0


def afreq(A, ploidy):
    c1, c0 = allele_copies(A, ploidy)
    return [Fr(a, a + b) for a, b in zip(c1, c0)]


# ----------------------------------------------------------------------------
# values
def location(beta):
    """Documented intercept contrast: X* = [1, 1/q, ..., 1/q] (q = number of fixed effects)."""
    q, t = len(beta), len(beta[0])
    out = []
    for k in range(t):
        v = beta[0][k]
        for r in range(1, q):
            v += Fr(1, q) * beta[r][k]
        out.append(v)
    return out


def linear_values(A, U, loc=None, H=None, Ud=None):
    """V[i][k] = loc_k + sum_j A_ij U_jk (+ sum_j H_ij Ud_jk), per taxon, exact."""
    n, m, t = len(A), len(U), (len(U[0]) if U else (len(loc) if loc else 0))
    V = []
    for i in range(n):
        row = []
        for k in range(t):
            v = Fr(0) if loc is None else Fr(loc[k])
            for j in range(m):
                v += A[i][j] * U[j][k]
            if Ud is not None:
                for j in range(m):
                    v += H[i][j] * Ud[j][k]
            row.append(v)
        V.append(row)
    return V


def fixed_part(X, beta):
    """F[i][k] = sum_r X_ir beta_rk."""
    n, q, t = len(X), len(beta), len(beta[0])
    return [[sum((Fr(X[i][r]) * beta[r][k] for r in range(q)), Fr(0)) for k in range(t)] for i in range(n)]


def add(V, W):
    return [[a + b for a, b in zip(r, s)] for r, s in zip(V, W)]


def popvar(V):
    """Population variance of each column of V (n x t)."""
    n, t = len(V), len(V[0])
    out = []
    for k in range(t):
        mean = sum((V[i][k] for i in range(n)), Fr(0)) / n
        out.append(sum(((V[i][k] - mean) ** 2 for i in range(n)), Fr(0)) / n)
    return out


def genic_var(U, p, ploidy):
    m, t = len(U), len(U[0])
    return [ploidy * ploidy * sum((U[j][k] ** 2 * p[j] * (1 - p[j]) for j in range(m)), Fr(0)) for k in range(t)]


def ratio(num, den):
    return [NAN if d == 0 else n / d for n, d in zip(num, den)]


def rsq(Y, Yhat):
    """Coefficient of determination per trait; None if SST == 0 (undefined, case invalid)."""
    n, t = len(Y), len(Y[0])
    out = []
    for k in range(t):
        mean = sum((Y[i][k] for i in range(n)), Fr(0)) / n
        sst = sum(((Y[i][k] - mean) ** 2 for i in range(n)), Fr(0))
        sse = sum(((Y[i][k] - Yhat[i][k]) ** 2 for i in range(n)), Fr(0))
        if sst == 0:
            return None
        out.append(1 - sse / sst)
    return out


# ----------------------------------------------------------------------------
# selection limits by brute force
def selection_limits(A, U, ploidy, loc=None):
    """(usl[k], lsl[k]): best / worst homozygous genotype that can be assembled from present alleles."""
    m, t = len(U), len(U[0])
    c1, c0 = allele_copies(A, ploidy)
    avail = [[a for a, c in ((0, c0[j]), (1, c1[j])) if c > 0] for j in range(m)]
    usl, lsl = [], []
    for k in range(t):
        best = worst = None
        for combo in itertools.product(*avail):
            v = sum((ploidy * U[j][k] * combo[j] for j in range(m)), Fr(0))
            best = v if best is None or v > best else best
            worst = v if worst is None or v < worst else worst
        if loc is not None:
            best += loc[k]
            worst += loc[k]
        usl.append(best)
        lsl.append(worst)
    return usl, lsl


# ----------------------------------------------------------------------------
# allele attributes
def allele_stats(A, U, ploidy):
    """dict name -> (m x t) nested list for fa*/da*/na* statistics."""
    n, m, t = len(A), len(U), len(U[0])
    c1, c0 = allele_copies(A, ploidy)
    tot = ploidy * n
    z = lambda fill: [[fill] * t for _ in range(m)]
    out = {k: z(0) for k in ("facount", "dacount")}
    for k in ("fafreq", "dafreq"):
        out[k] = z(Fr(0))
    for k in ("faavail", "fafixed", "fapoly", "daavail", "dafixed", "dapoly", "nafixed", "napoly"):
        out[k] = z(False)
    for j in range(m):
        for k in range(t):
            u = U[j][k]
            if u > 0:
                fav, dele = c1[j], c0[j]
            elif u < 0:
                fav, dele = c0[j], c1[j]
            else:
                fav = dele = None
            if fav is not None:
                out["facount"][j][k] = fav
                out["dacount"][j][k] = dele
                out["fafreq"][j][k] = Fr(fav, tot)
                out["dafreq"][j][k] = Fr(dele, tot)
                out["faavail"][j][k] = fav > 0
                out["daavail"][j][k] = dele > 0
                out["fafixed"][j][k] = fav == tot
                out["dafixed"][j][k] = dele == tot
                out["fapoly"][j][k] = 0 < fav < tot
                out["dapoly"][j][k] = 0 < dele < tot
            else:
                out["nafixed"][j][k] = c1[j] == 0 or c1[j] == tot
                out["napoly"][j][k] = 0 < c1[j] < tot
    return out


# ----------------------------------------------------------------------------
# ridge regression clauses (rrBLUP); plain floats are enough here, the tolerances are the property's
def polymorphic(Z):
    n, p = len(Z), len(Z[0])
    return [any(Z[i][j] != Z[0][j] for i in range(n)) for j in range(p)]


def column_rank(Z):
    """Exact rank of an integer matrix (Fractions, Gaussian elimination)."""
    M = [[Fr(v) for v in row] for row in Z]
    rank, rows, cols = 0, len(M), len(M[0]) if M else 0
    for c in range(cols):
        piv = next((r for r in range(rank, rows) if M[r][c] != 0), None)
        if piv is None:
            continue
        M[rank], M[piv] = M[piv], M[rank]
        for r in range(rows):
            if r != rank and M[r][c] != 0:
                f = M[r][c] / M[rank][c]
                M[r] = [a - f * b for a, b in zip(M[r], M[rank])]
        rank += 1
    return rank


def ridge_criterion(y, Z, b, u, lam):
    """sum_i (y_i - b - sum_j Z_ij u_j)^2 + lam * sum_j u_j^2"""
    s = 0.0
    for i in range(len(y)):
        r = y[i] - b
        for j in range(len(u)):
            r -= Z[i][j] * u[j]
        s += r * r
    for j in range(len(u)):
        s += lam * u[j] * u[j]
    return s


def normal_eq_residual(y, Z, b, u, lam):
    """max_j | sum_i Z_ij (y_i - b) - sum_l (Z'Z + lam I)_jl u_l |  and a scale for it."""
    n, p = len(y), len(u)
    res, scale = 0.0, 1.0
    for j in range(p):
        rhs = sum(Z[i][j] * (y[i] - b) for i in range(n))
        lhs = 0.0
        mag = abs(rhs)
        for l in range(p):
            a = sum(Z[i][j] * Z[i][l] for i in range(n)) + (lam if l == j else 0.0)
            lhs += a * u[l]
            mag = max(mag, abs(a * u[l]))
        res = max(res, abs(rhs - lhs))
        scale = max(scale, mag)
    return res, scale


def isfinite(x):
    return not (math.isnan(x) or math.isinf(x))
