"""C15, layer S — harness for the generic DenseScaledMatrix (transform / untransform / rescale / unscale).

Model: the exact raw value of every cell (raw = scale * mat + location along the last axis, Fractions) plus the
location / scale the object is expected to hold.  S1 = every small matrix x parameter variant x single operation;
S2 = BFS over operation histories on curated matrices (1-D, 2-D, 3-D)."""
from __future__ import annotations
import collections, itertools, math
import copy as _copy
from fractions import Fraction
import numpy

from .. import compat  # noqa: F401
from ..core import Violation, require, digest, same
from . import scaled as R

C = "DenseScaledMatrix"


def _cls():
    from pybrops.core.mat.DenseScaledMatrix import DenseScaledMatrix
    return DenseScaledMatrix


FORM_DTYPE = {"i8": "int64", "i4": "int32", "f4": "float32", "f8": "float64"}


def variants(seed, t):
    """(location, scale) argument variants.  A list stands for a float64 array; ("form", value) gives the argument
    FORM explicitly: python int / python float scalars ("pyint", "pyfloat") or arrays of dtype int64 / int32 /
    float32 / float64 ("i8", "i4", "f4", "f8").  The documented argument types are Real or numpy.ndarray (lists are
    rejected by the library), and every form has to behave like the float64 reference through the whole history.
    Values of the integer / float32 forms are exactly representable in those types."""
    a, z, b, L = R.alphabet(seed)
    return {
        "V0": (0.0, 1.0),                                   # Real, Real (defaults)
        "V1": ([a, L][:t], [2.0, 0.5][:t]),                 # arrays
        "V2": (3.0, [4.0, 1.0][:t]),                        # Real, array
        "V3": (("pyint", 0), ("pyint", 1)),                 # the defaults written as python ints
        "V4": (("pyint", 3), ("pyint", 2)),
        "V5": (("i8", [3, -2][:t]), ("i8", [2, 4][:t])),
        "V6": (("i4", [0, 5][:t]), ("i4", [1, 3][:t])),
        "V7": (("f4", [0.5, -2.0][:t]), ("f4", [2.0, 0.25][:t])),
        "V8": (("pyfloat", 0.5), ("f8", [2.0, 8.0][:t])),
    }


VIDS = ("V0", "V1", "V2", "V3", "V4", "V5", "V6", "V7", "V8")


def build_arg(spec, t):
    """-> (argument to pass to the constructor, list of t floats the model uses)"""
    if isinstance(spec, tuple):
        form, v = spec
        if form == "pyint":
            return int(v), [float(v)] * t
        if form == "pyfloat":
            return float(v), [float(v)] * t
        return numpy.array(v, dtype=FORM_DTYPE[form]), [float(x) for x in v]
    if isinstance(spec, list):
        return numpy.array([float(x) for x in spec], dtype="float64"), [float(x) for x in spec]
    return float(spec), [float(spec)] * t


def to_array(x):
    def rec(y):
        return R.NAN if y is None else ([rec(v) for v in y] if isinstance(y, list) else float(y))
    return numpy.array(rec(x), dtype="float64")


def alt_matrix(shape, seed):
    """a fixed argument matrix for transform / untransform"""
    a, z, b, L = R.alphabet(seed)
    cyc = [b, a, z, None, L, 1.5, a]
    n = 1
    for s in shape:
        n *= s
    flat = [cyc[i % len(cyc)] for i in range(n)]
    return numpy.array([R.NAN if v is None else v for v in flat], dtype="float64").reshape(shape)


class Model:
    __slots__ = ("shape", "cols", "loc", "scale", "mag")

    def __init__(self, shape, cols, loc, scale, mag):
        self.shape, self.cols, self.loc, self.scale, self.mag = shape, cols, loc, scale, mag

    def copy(self):
        return Model(self.shape, self.cols, list(self.loc), list(self.scale), list(self.mag))


def make(mat, loc, scale, seed_unused=None):
    """mat nested list (floats/None); loc/scale as in variants().  Returns (real object, model)."""
    arr = to_array(mat)
    t = arr.shape[-1]
    larg, locl = build_arg(loc, t)
    sarg, scl = build_arg(scale, t)
    obj = _cls()(arr.copy(), location=larg, scale=sarg)
    flat = arr.reshape(-1, t)
    cols = [[None if math.isnan(v) else Fraction(scl[j]) * Fraction(float(v)) + Fraction(locl[j]) for v in flat[:, j].tolist()]
            for j in range(t)]
    mag = []
    for j in range(t):
        pres = [abs(float(Fraction(scl[j]) * Fraction(float(v)))) for v in flat[:, j].tolist() if not math.isnan(v)]
        mag.append(max([0.0, abs(locl[j])] + pres + [abs(float(v)) for v in cols[j] if v is not None]))
    return obj, Model(arr.shape, cols, locl, scl, mag)


def snap(o):
    return (o.mat.copy(), numpy.array(o.location, copy=True), numpy.array(o.scale, copy=True))


def restore(s):
    return _cls()(s[0].copy(), location=s[1].copy(), scale=s[2].copy())


def unchanged(o, s):
    return same(o.mat, s[0]) and same(o.location, s[1]) and same(o.scale, s[2])


# ----------------------------------------------------------------------------
def _cells(arr, t):
    return arr.reshape(-1, t)


def check_raw(obj, m, sig, what="scale*mat+location"):
    t = m.shape[-1]
    require(obj.mat.shape == m.shape, sig + ":shape", lambda: f"mat shape {obj.mat.shape} expected {m.shape}")
    require(isinstance(obj.location, numpy.ndarray) and obj.location.shape == (t,) and
            isinstance(obj.scale, numpy.ndarray) and obj.scale.shape == (t,), sig + ":location-scale-shape",
            lambda: f"location {obj.location!r} scale {obj.scale!r}")
    U = _cells(obj.scale * obj.mat + obj.location, t)
    compare_cols(U, m, sig, what)


def compare_cols(U, m, sig, what, expected=None, tols=None):
    t = m.shape[-1]
    for j in range(t):
        col = m.cols[j] if expected is None else expected[j]
        for i, v in enumerate(col):
            u = float(U[i, j])
            if v is None or (isinstance(v, float) and math.isnan(v)):
                require(math.isnan(u), sig + ":nan-contamination", lambda: f"{what}: cell {i},{j} expected missing, got {u!r}")
            else:
                tol = R.TOL * m.mag[j] if tols is None else tols[j](float(v))
                require(not math.isnan(u), sig + ":nan-contamination", lambda: f"{what}: cell {i},{j} expected {float(v)!r}, got NaN")
                require(abs(u - float(v)) <= tol, sig + ":values",
                        lambda: f"{what}: cell {i},{j} expected {float(v)!r}, got {u!r} (tol {tol:.3g}); all={U.tolist()}")


def expected_loc_scale(m):
    return [R.col_loc_scale(col) for col in m.cols]


def check_loc_scale(obj, m, els, sig):
    for j, (el, es, const) in enumerate(els):
        l, s = float(obj.location[j]), float(obj.scale[j])
        if math.isnan(el):
            continue                      # nothing present in this column: location/scale undefined
        tol = 2 * R.TOL * m.mag[j]        # relative to the column magnitude, no absolute floor
        require(abs(l - el) <= tol, sig + ":location", lambda: f"column {j}: location {l!r}, mean of raw values {el!r} (tol {tol:.3g})")
        if const:
            require(s == 1.0, sig + ":scale:constant-column-not-unit", lambda: f"column {j} constant, scale {s!r}")
        else:
            # a spread below the rounding level of scale*mat+location may legitimately be seen as constant
            collapsed = es <= tol and s == 1.0
            require(collapsed or abs(s - es) <= tol, sig + ":scale", lambda: f"column {j}: scale {s!r}, std of raw values {es!r} (tol {tol:.3g})")


def arg_matrix(xid, m, seed):
    if xid == "raw":
        t = m.shape[-1]
        flat = numpy.array([[R.NAN if m.cols[j][i] is None else float(m.cols[j][i]) for j in range(t)]
                            for i in range(len(m.cols[0]))], dtype="float64")
        return flat.reshape(m.shape)
    return alt_matrix(m.shape, seed)


EVENTS = ([["rescale", True], ["rescale", False], ["unscale", True], ["unscale", False]] +
          [[op, xid, cp] for op in ("transform", "untransform") for xid in ("raw", "alt") for cp in (True, False)] +
          [["copy", how, follow] for how in ("copy", "copy.copy") for follow in ("unscale", "rescale", "transform")])


def opsig(ev):
    if ev[0] == "copy":
        return f"{C}.__copy__"
    if ev[0] in ("rescale", "unscale"):
        return f"{C}.{ev[0]}(inplace={ev[1]})"
    return f"{C}.{ev[0]}(copy={ev[2]})"


def step(obj, m, ev, seed):
    """Apply ev to the real object, judge it, return the successor model (raises Violation)."""
    sig = opsig(ev)
    t = m.shape[-1]
    pre = snap(obj)
    op = ev[0]
    if op == "copy":
        # a (shallow) copy is an independent matrix: it holds the same values, and no in-place operation on the copy
        # may change what the source object stores or what it unscales to
        how, follow = ev[1], ev[2]
        c = obj.copy() if how == "copy" else _copy.copy(obj)
        require(c is not obj and isinstance(c, type(obj)), sig + ":returns-self", "")
        require(unchanged(c, pre), sig + ":copy-differs", lambda: f"copy holds mat={c.mat.tolist()} location={c.location!r} scale={c.scale!r}")
        check_raw(c, m, sig + ":copy")
        if follow == "unscale":
            c.unscale(inplace=True)
            compare_cols(_cells(c.mat, t), m, sig + ":copy", "copy.mat after unscale(inplace=True)")
        elif follow == "rescale":
            c.rescale(inplace=True)
            check_raw(c, m, sig + ":copy")
        else:
            c.untransform(c.mat, copy=False)
            c.transform(c.mat, copy=False)
        require(unchanged(obj, pre), sig + ":shares-state-with-source",
                lambda: f"{follow} in place on the copy changed the source: location={obj.location.tolist()} scale={obj.scale.tolist()} "
                        f"(before: {pre[1].tolist()}, {pre[2].tolist()})")
        check_raw(obj, m, sig + ":source-after-inplace-op-on-copy")
        compare_cols(_cells(obj.unscale(inplace=False), t), m, sig + ":source-after-inplace-op-on-copy", "source.unscale(inplace=False)")
        compare_cols(_cells(obj.untransform(obj.mat, copy=True), t), m, sig + ":source-after-inplace-op-on-copy", "source.untransform(source.mat)")
        return m
    if op == "rescale":
        inplace = ev[1]
        els = expected_loc_scale(m)
        r = obj.rescale(inplace=inplace)
        require(isinstance(r, numpy.ndarray) and r.shape == m.shape, sig + ":shape", lambda: f"returned {getattr(r, 'shape', r)}")
        if inplace:
            require(r is obj.mat, sig + ":returns-copy", "documented to return a pointer to the internal matrix")
            check_loc_scale(obj, m, els, sig)
            check_raw(obj, m, sig)
            nm = m.copy()
            # transform()/untransform() are documented to use the parameters stored in the object: having been judged
            # against the model (within the rounding tolerance) just above, the stored values become the reference
            nm.loc = [float(v) for v in obj.location]
            nm.scale = [float(v) for v in obj.scale]
            return nm
        require(unchanged(obj, pre), sig + ":mutates-self", "object changed although inplace=False")
        require(not numpy.shares_memory(r, obj.mat), sig + ":returns-internal-array", "")
        exp = [[None if v is None else (float(v) - els[j][0]) / els[j][1] for v in m.cols[j]] for j in range(t)]
        tols = [(lambda e, j=j: 4 * R.TOL * m.mag[j] / els[j][1] + 1e-9 * abs(e)) for j in range(t)]
        compare_cols(_cells(r, t), m, sig, "standardised copy", exp, tols)
        return m
    if op == "unscale":
        inplace = ev[1]
        r = obj.unscale(inplace=inplace)
        require(isinstance(r, numpy.ndarray) and r.shape == m.shape, sig + ":shape", lambda: f"returned {getattr(r, 'shape', r)}")
        if inplace:
            require(r is obj.mat, sig + ":returns-copy", "documented to return a pointer to the internal matrix")
            require(bool(numpy.all(obj.location == 0.0)) and bool(numpy.all(obj.scale == 1.0)), sig + ":location-scale-not-reset",
                    lambda: f"location {obj.location.tolist()} scale {obj.scale.tolist()}")
            compare_cols(_cells(obj.mat, t), m, sig, "mat after unscale")
            nm = m.copy()
            nm.loc, nm.scale = [0.0] * t, [1.0] * t
            return nm
        require(unchanged(obj, pre), sig + ":mutates-self", "object changed although inplace=False")
        require(not numpy.shares_memory(r, obj.mat), sig + ":returns-internal-array", "")
        compare_cols(_cells(r, t), m, sig, "unscaled copy")
        return m
    # transform / untransform
    xid, cp = ev[1], ev[2]
    X = arg_matrix(xid, m, seed)
    Xc = X.copy()
    r = getattr(obj, op)(Xc, copy=cp)
    require(unchanged(obj, pre), sig + ":mutates-self", "object changed by a transformation of an external array")
    require(isinstance(r, numpy.ndarray) and r.shape == m.shape, sig + ":shape", lambda: f"returned {getattr(r, 'shape', r)}")
    if cp:
        require(same(Xc, X), sig + ":mutates-input", "input array changed although copy=True")
        require(not numpy.shares_memory(r, Xc), sig + ":returns-input", "")
    else:
        require(r is Xc, sig + ":returns-copy", "copy=False must work on the given array")
    xf = _cells(X, t)
    exp, tols = [], []
    for j in range(t):
        l, s = m.loc[j], m.scale[j]
        col = []
        for x in xf[:, j].tolist():
            if math.isnan(x) or math.isnan(l) or math.isnan(s):
                col.append(None)
            elif op == "transform":
                col.append(float((Fraction(x) - Fraction(l)) / Fraction(s)))
            else:
                col.append(float(Fraction(x) * Fraction(s) + Fraction(l)))
        exp.append(col)
        big = max([0.0, abs(l) if not math.isnan(l) else 0.0] + [abs(x) for x in xf[:, j].tolist() if not math.isnan(x)])
        if op == "transform":
            tols.append(lambda e, big=big, s=s: 1e-9 * abs(e) + R.TOL * big / abs(s))
        else:
            tols.append(lambda e, big=big, s=s: 1e-9 * abs(e) + R.TOL * max(big * abs(s), abs(l) if not math.isnan(l) else 0.0))
    compare_cols(_cells(r, t), m, sig, f"{op}({xid})", exp, tols)
    return m


def perform(obj, ev, m, seed):
    """apply one event to a live object without judging it (used to bring a fresh object through a history)"""
    op = ev[0]
    if op in ("rescale", "unscale"):
        getattr(obj, op)(inplace=ev[1])
    elif op in ("transform", "untransform"):
        getattr(obj, op)(arg_matrix(ev[1], m, seed).copy(), copy=ev[2])
    else:
        c = obj.copy() if ev[1] == "copy" else _copy.copy(obj)
        if ev[2] == "unscale":
            c.unscale(inplace=True)
        elif ev[2] == "rescale":
            c.rescale(inplace=True)
        else:
            c.untransform(c.mat, copy=False)
            c.transform(c.mat, copy=False)


def run_event(ctx, s, m, ev, seed, case, live=None, hist=()):
    """Judge one event on a LIVE object: a fresh object is taken through the whole history by the real methods (not
    rebuilt from a snapshot of its public arrays), so that anything the object keeps besides mat / location / scale
    (caches, shared vectors) is in the state a user's object would be in.  Returns (snapshot, model) or None."""
    box = {}
    ctx.evaluations += 1
    ctx.transitions += 1
    ctx.count(f"S:op:{ev[0]}")

    def do():
        if live is None:
            obj = restore(s)
        else:
            obj = live()
            for e in hist:
                perform(obj, e, m, seed)
            require(unchanged(obj, s), f"{C}:history-replay-differs",
                    "replaying the history on a fresh object does not reproduce the recorded state")
        box["o"] = obj
        box["m"] = step(obj, m, ev, seed)
    if not ctx.guard(do, case=case, sig_prefix=opsig(ev) + ":"):
        return None
    ctx.traces += 1
    ns = snap(box["o"])
    if not (same(ns[0], s[0]) and same(ns[1], s[1]) and same(ns[2], s[2])):
        ctx.flag(f"S:changes:{ev[0]}")
        ctx.nontriv(digest(("S", s, ev)))
    return ns, box["m"]


def init_case(ctx, mat, vid, seed, case):
    t = R.nd_shape(mat)[-1]
    loc, scale = variants(seed, t)[vid]
    box = {}

    def mk():
        box["x"] = make(mat, loc, scale)
        obj, m = box["x"]
        require(isinstance(obj.location, numpy.ndarray) and obj.location.tolist() == m.loc, f"{C}.__init__:location",
                lambda: f"location {obj.location!r} expected {m.loc}")
        require(isinstance(obj.scale, numpy.ndarray) and obj.scale.tolist() == m.scale, f"{C}.__init__:scale",
                lambda: f"scale {obj.scale!r} expected {m.scale}")
    if not ctx.guard(mk, case=case, sig_prefix=f"{C}.__init__:"):
        return None
    return box["x"]


def bfs(ctx, mat, vid, seed, depth):
    base = dict(layer="S", mat=mat, variant=vid, seed=seed)
    x = init_case(ctx, mat, vid, seed, dict(base, history=[]))
    if x is None:
        return
    obj, m = x
    t_ = R.nd_shape(mat)[-1]
    loc_, scale_ = variants(seed, t_)[vid]

    def live():
        return make(mat, loc_, scale_)[0]
    s0 = snap(obj)
    seen = {digest(s0)}
    ctx.state(digest(("S", s0)))
    fr = collections.deque([((), s0, m, 0)])
    for j in range(m.shape[-1]):
        el, es, const = R.col_loc_scale(m.cols[j])
        if const:
            ctx.flag("S:constant-column")
        if any(v is None for v in m.cols[j]):
            ctx.flag("S:nan-column")
    ctx.flag(f"S:ndim={len(m.shape)}")
    while fr:
        hist, s, mm, d = fr.popleft()
        if d >= depth:
            continue
        for ev in EVENTS:
            case = dict(base, history=list(hist) + [ev])
            out = run_event(ctx, s, mm, ev, seed, case, live=live, hist=hist)
            if out is None:
                continue
            ns, nm = out
            ctx.outcome(digest(("S", ns)))
            k = digest(ns)
            if k in seen:
                continue
            seen.add(k)
            ctx.state(digest(("S", ns)))
            fr.append((hist + (ev,), ns, nm, d + 1))


# ----------------------------------------------------------------------------
VGROUPS = (("V0", "V1", "V2"), ("V3", "V4", "V5"), ("V6", "V7", "V8"))

CURATED = [
    ["a", "L"],                                              # 1-D
    ["N", "z"],
    [[["a", "z"], ["b", "z"]], [["L", "z"], ["N", "z"]]],    # 3-D (2,2,2)
    [[["a"], ["a"]], [["b"], ["N"]]],                        # 3-D (2,2,1)
    [["a", "b"], ["z", "b"], ["b", "b"]],
    [["L", "N"], ["a", "z"], ["z", "N"]],
    [["L"], ["L"], ["L"]],
    [["N", "a"]],
    [["e", "H"], ["f", "G"], ["z", "H"]],                    # tiny spread | offset + tiny pair
]


def shards(tier, seed):
    T = tier == "thorough"
    out = []
    shapes = [(1, 1), (2, 1), (3, 1), (1, 2), (2, 2)] + ([(3, 2), (4, 1)] if T else [])
    for (n, t) in shapes:
        cells = n * t
        if cells <= 3:
            out.append(("S1", n, t, (), VIDS))
        elif cells == 4:
            for g in VGROUPS:
                out.append(("S1", n, t, (), g))
        else:
            for p in itertools.product(R.SYMS, repeat=2):
                for g in VGROUPS:
                    out.append(("S1", n, t, p, g))
    for (n, t) in [(1, 1), (2, 1), (3, 1), (1, 2), (2, 2)] + ([(4, 1)] if T else []):
        if n * t <= 3:
            out.append(("S1T", n, t, (), VIDS))
        else:
            for g in VGROUPS:
                out.append(("S1T", n, t, (), g))
    for i in range(len(CURATED)):
        out.append(("S2", i, 4 if T else 3))
    return out


def run_shard(spec, ctx):
    seed = ctx.seed
    if spec[0] in ("S1", "S1T"):
        _, n, t, prefix, vids = spec
        ctx.flag("S:alphabet:" + ("main" if spec[0] == "S1" else "tiny"))
        for tail in itertools.product(R.SYMS if spec[0] == "S1" else R.TSYMS, repeat=n * t - len(prefix)):
            cells = tuple(prefix) + tail
            mat = R.concrete([list(cells[i * t:(i + 1) * t]) for i in range(n)], seed)
            for vid in vids:
                bfs(ctx, mat, vid, seed, 1)
                ctx.count("S1:cases")
                ctx.flag(f"S:variant:{vid}")
    else:
        _, i, depth = spec
        mat = R.concrete(CURATED[i], seed)
        for vid in VIDS:
            bfs(ctx, mat, vid, seed, depth)
            ctx.count("S2:roots")


def finalize(ctx, tier, seed):
    c, f = ctx.counters, ctx.flags
    for op in ("rescale", "unscale", "transform", "untransform", "copy"):
        assert c.get(f"S:op:{op}", 0) > 0, op
    assert "S:alphabet:tiny" in f and "S:alphabet:main" in f
    for vid in VIDS:                     # every constructor argument form of location / scale
        assert f"S:variant:{vid}" in f, vid
    for fl in ("S:changes:rescale", "S:changes:unscale", "S:constant-column", "S:nan-column", "S:ndim=1", "S:ndim=2", "S:ndim=3"):
        assert fl in f, fl
    assert c.get("S1:cases", 0) > 100 and c.get("S2:roots", 0) > 0


def replay(case, ctx):
    seed = case["seed"]
    x = init_case(ctx, case["mat"], case["variant"], seed, dict(case, history=[]))
    if x is None:
        return
    obj, m = x
    t_ = R.nd_shape(case["mat"])[-1]
    loc_, scale_ = variants(seed, t_)[case["variant"]]
    s = snap(obj)
    hist = []
    for ev in case["history"]:
        out = run_event(ctx, s, m, ev, seed, dict(case, history=list(hist) + [ev]),
                        live=lambda: make(case["mat"], loc_, scale_)[0], hist=tuple(hist))
        hist.append(ev)
        if out is None:
            return
        s, m = out
