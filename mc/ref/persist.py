"""Reference side of C16: object pools spanning the lattice of optional fields, a generic
observation function (every public property of an object, recursively), comparison of
observations, the dict-of-last-writes file model and a canonical reader for HDF5 files.

Nothing here copies library logic: objects are built through the public constructors,
observed through public properties, and the expected result of a read is simply the
observation of the object that was written last.
"""
from __future__ import annotations
import contextlib, importlib, io, math, os, warnings

import numpy

from .. import compat  # noqa: F401
from ..core import canon, digest

# ----------------------------------------------------------------------------
# class table
#   shape symbols: n taxa, m variants, t traits, 2 phases
#   opt: optional constructor fields in "richness" order
TAXA = ("taxa", "taxa_grp")
VRNT = ("vrnt_chrgrp", "vrnt_phypos", "vrnt_name", "vrnt_genpos", "vrnt_xoprob", "vrnt_hapgrp",
        "vrnt_hapalt", "vrnt_hapref", "vrnt_mask")
TRAIT = ("trait",)


def _c(mod, shape, dtype="float64", opt=(), scaled=False, ploidy=False, kind="mat", pandas=None):
    return dict(mod=mod, shape=shape, dtype=dtype, opt=tuple(opt), scaled=scaled, ploidy=ploidy, kind=kind,
                pandas=pandas)


CLASSES = {
    # ---- core matrices
    "DenseMatrix": _c("pybrops.core.mat", "nm"),
    "DenseMutableMatrix": _c("pybrops.core.mat", "nm"),
    "DensePhasedMatrix": _c("pybrops.core.mat", "2nm", "int8"),
    "DenseSquareMatrix": _c("pybrops.core.mat", "nn"),
    "DenseScaledMatrix": _c("pybrops.core.mat", "nt", scaled=True),
    "DenseTaxaMatrix": _c("pybrops.core.mat", "nm", opt=TAXA),
    "DenseSquareTaxaMatrix": _c("pybrops.core.mat", "nn", opt=TAXA),
    "DenseTraitMatrix": _c("pybrops.core.mat", "tn", opt=TRAIT),
    "DenseSquareTraitMatrix": _c("pybrops.core.mat", "tt", opt=TRAIT),
    "DenseTaxaTraitMatrix": _c("pybrops.core.mat", "nt", opt=TAXA + TRAIT),
    "DenseVariantMatrix": _c("pybrops.core.mat", "mn", opt=VRNT),
    "DenseTaxaVariantMatrix": _c("pybrops.core.mat", "nm", opt=TAXA + VRNT),
    "DensePhasedTaxaVariantMatrix": _c("pybrops.core.mat", "2nm", "int8", opt=TAXA + VRNT),
    "DenseSquareTaxaTraitMatrix": _c("pybrops.core.mat", "nnt", opt=TAXA + TRAIT, pandas="long"),
    "DenseSquare2TaxaTraitMatrix": _c("pybrops.core.mat", "nnt", opt=TAXA + TRAIT, pandas="long2"),
    "DenseScaledSquareTaxaTraitMatrix": _c("pybrops.core.mat", "nnt", opt=TAXA + TRAIT, scaled=True, pandas="long"),
    "DenseSquareTaxaSquareTraitMatrix": _c("pybrops.core.mat", "nntt", opt=TAXA + TRAIT),
    "DenseGeneticMappableMatrix": _c("pybrops.popgen.gmap", "mn", opt=VRNT),
    # ---- genotypes
    "DenseGenotypeMatrix": _c("pybrops.popgen.gmat", "nm", "int8", opt=TAXA + VRNT, ploidy=True),
    "DensePhasedGenotypeMatrix": _c("pybrops.popgen.gmat", "2nm", "int8", opt=TAXA + VRNT),
    # ---- breeding values
    "DenseBreedingValueMatrix": _c("pybrops.popgen.bvmat", "nt", opt=TAXA + TRAIT, scaled=True, pandas="bv"),
    "DenseEstimatedBreedingValueMatrix": _c("pybrops.popgen.bvmat", "nt", opt=TAXA + TRAIT, scaled=True, pandas="bv"),
    "DenseGenomicEstimatedBreedingValueMatrix": _c("pybrops.popgen.bvmat", "nt", opt=TAXA + TRAIT, scaled=True, pandas="bv"),
    "DenseWeightedGenomicEstimatedBreedingValueMatrix": _c("pybrops.model.wgebvmat", "nt", opt=TAXA + TRAIT, scaled=True, pandas="bv"),
    "DenseExpectedMaximumBreedingValueMatrix": _c("pybrops.model.embvmat", "nt", opt=TAXA + TRAIT, scaled=True, pandas="bv"),
    # ---- coancestry
    "DenseMolecularCoancestryMatrix": _c("pybrops.popgen.cmat", "nn", opt=TAXA, pandas="cmat"),
    "DenseVanRadenCoancestryMatrix": _c("pybrops.popgen.cmat", "nn", opt=TAXA, pandas="cmat"),
    "DenseYangCoancestryMatrix": _c("pybrops.popgen.cmat", "nn", opt=TAXA, pandas="cmat"),
    "DenseGeneralizedWeightedCoancestryMatrix": _c("pybrops.popgen.cmat", "nn", opt=TAXA, pandas="cmat"),
    # ---- variance / covariance
    "DenseTwoWayDHAdditiveGeneticVarianceMatrix": _c("pybrops.model.vmat", "nnt", opt=TAXA + TRAIT, pandas="v2"),
    "DenseTwoWayDHAdditiveGenicVarianceMatrix": _c("pybrops.model.vmat", "nnt", opt=TAXA + TRAIT, pandas="v2"),
    "DenseDihybridDHAdditiveGeneticVarianceMatrix": _c("pybrops.model.vmat", "nnt", opt=TAXA + TRAIT, pandas="v2"),
    "DenseDihybridDHAdditiveGenicVarianceMatrix": _c("pybrops.model.vmat", "nnt", opt=TAXA + TRAIT, pandas="v2"),
    "DenseThreeWayDHAdditiveGeneticVarianceMatrix": _c("pybrops.model.vmat", "nnnt", opt=TAXA + TRAIT, pandas="v3"),
    "DenseThreeWayDHAdditiveGenicVarianceMatrix": _c("pybrops.model.vmat", "nnnt", opt=TAXA + TRAIT, pandas="v3"),
    "DenseFourWayDHAdditiveGeneticVarianceMatrix": _c("pybrops.model.vmat", "nnnnt", opt=TAXA + TRAIT, pandas="v4"),
    "DenseFourWayDHAdditiveGenicVarianceMatrix": _c("pybrops.model.vmat", "nnnnt", opt=TAXA + TRAIT, pandas="v4"),
    "DenseTwoWayDHAdditiveProgenyGeneticCovarianceMatrix": _c("pybrops.model.pcvmat", "nntt", opt=TAXA + TRAIT, pandas="c2"),
    "DenseDihybridDHAdditiveProgenyGeneticCovarianceMatrix": _c("pybrops.model.pcvmat", "nntt", opt=TAXA + TRAIT, pandas="c2"),
    "DenseThreeWayDHAdditiveProgenyGeneticCovarianceMatrix": _c("pybrops.model.pcvmat", "nnntt", opt=TAXA + TRAIT, pandas="c3"),
    "DenseFourWayDHAdditiveProgenyGeneticCovarianceMatrix": _c("pybrops.model.pcvmat", "nnnntt", opt=TAXA + TRAIT, pandas="c4"),
    # ---- genomic models
    "DenseAdditiveLinearGenomicModel": _c("pybrops.model.gmod", None, kind="gmod", pandas="gmod"),
    "DenseAdditiveDominanceLinearGenomicModel": _c("pybrops.model.gmod", None, kind="gmod", pandas="gmod"),
    "rrBLUPModel0": _c("pybrops.model.gmod", None, kind="gmod", pandas="gmod"),
    # ---- phenotyping protocols
    "G_E_Phenotyping": _c("pybrops.breed.prot.pt", None, kind="pt"),
    "TruePhenotyping": _c("pybrops.breed.prot.pt", None, kind="pt"),
    # ---- genetic maps (no HDF5 methods)
    "StandardGeneticMap": _c("pybrops.popgen.gmap", None, kind="gmap", pandas="gmap"),
    "ExtendedGeneticMap": _c("pybrops.popgen.gmap", None, kind="gmap", pandas="gmap"),
}

# classes of the library that declare the I/O interfaces but cannot even be imported here
NOT_IMPORTABLE = {
    "DenseTwoWayProgenyMeanEstimatedBreedingValueMatrix":
        "pybrops.model.pmebvmat: TypeError at class creation (inconsistent MRO HDF5InputOutput/PandasInputOutput) — "
        "package cannot be imported on any Python, not an I/O round-trip matter",
}


def get_class(name):
    spec = CLASSES[name]
    mod = importlib.import_module(f"{spec['mod']}.{name}")
    return getattr(mod, name)


# ----------------------------------------------------------------------------
# value alphabets (rotated by VERIF_SEED; never select structure)
def alphabet(seed):
    v = seed % 3
    return dict(
        taxa_ascii=[["lineC", "lineA", "lineB", "lineD"], ["T30", "T10", "T20", "T40"], ["zeta", "alpha", "mu", "omega"]][v],
        taxa_uni=[["ŧaxön–1", "αβγ", "品種三", "Ω-4"], ["ñandú", "ŧaxön–1", "жито", "ß4"], ["日本晴", "çà", "ŧaxön–1", "Ǆ"]][v],
        trait_ascii=[["yield", "height"], ["t2", "t1"], ["protein", "oil"]][v],
        trait_uni=[["收量", "höhe"], ["rendement–é", "ŧrait"], ["μ", "белок"]][v],
        vrnt_ascii=[["snpC", "snpA", "snpD", "snpB"], ["m3", "m1", "m4", "m2"], ["rs9", "rs2", "rs7", "rs5"]][v],
        vrnt_uni=[["snp–ü", "マーカ", "mθ", "m4"], ["ĸ1", "snp–ü", "м3", "m4"], ["标记", "é2", "snp–ü", "ø"]][v],
        grp=[[7, 3, 7, 5], [2, 1, 2, 9], [40, 40, 11, 12]][v],
        chr=[[2, 1, 2, 1], [5, 3, 5, 3], [1, 1, 9, 9]][v],
        pos=[[30, 20, 10, 40], [7, 1000000, 5, 12], [4, 3, 2, 1]][v],
        fscale=[1.0, 0.37, -2.5][v],
        foff=[0.0, 1000.25, -3.0][v],
    )


def _fvals(shape, seed, salt):
    """float64 array with provenance-coded distinct cells (+ special values)."""
    a = alphabet(seed)
    size = int(numpy.prod(shape)) if len(shape) else 1
    x = (numpy.arange(size, dtype="float64") + 1.0 + 100.0 * salt) * a["fscale"] + a["foff"]
    x = x / 8.0 + 1.0 / 3.0
    if size >= 3 and salt % 2 == 1:
        x[size - 1] = numpy.nan
    if size >= 4 and salt % 3 == 2:
        x[0] = 1e-300
        x[1] = -1e300
    return x.reshape(shape)


def _i8vals(shape, seed, salt):
    size = int(numpy.prod(shape))
    x = ((numpy.arange(size) * 37 + 11 * (seed + 1) + 5 * salt) % 256 - 128).astype("int8")
    if size >= 2:
        x[0] = 127
        x[-1] = -128
    return x.reshape(shape)


# ----------------------------------------------------------------------------
# profiles: which optional fields are present
CORE3 = {"rich", "bare", "partial", "hyper2", "plain", "a", "small", "int64", "t2", "t1", "e2r2", "e3r1", "e1",
         "two-chr", "one-chr", "three-chr"}


def profiles(name, tier):
    """tier 'core3': the three structurally most different profiles of the pool (depth-4 histories)"""
    if tier == "core3":
        full = _profiles(name, "quick")
        return [p for p in full if p["id"] in CORE3][:3]
    return _profiles(name, tier)


def _profiles(name, tier):
    """Pool of build profiles for one class, from rich to poor.  Each is a dict; the pool spans
    all labels + grouped  ⊃  all labels  ⊃  some labels  ⊃  none, 1 vs 2 traits, 2 vs 3 taxa,
    ASCII vs non-ASCII labels.  tier: 'quick' (4 profiles) ⊂ 'thorough' (5) ⊂ 'wide' (6; used for the
    single-step forms, copies and depth-2 histories)."""
    spec = CLASSES[name]
    post = tier in ("wide", "post")      # objects in POST-OPERATION states (after in-place edits of a built object)
    if spec["kind"] == "gmod":
        out = [dict(id="rich", t=2, misc=2, trait=True, name=True, hyper="mixed", uni=True, salt=0),
               dict(id="hyper2", t=2, misc=2, trait=True, name=True, hyper="other", uni=False, salt=1),
               dict(id="plain", t=2, misc=0, trait=False, name=False, hyper=None, uni=False, salt=2),
               dict(id="one-trait", t=1, misc=1, trait=True, name=True, hyper="num", uni=False, salt=3),
               dict(id="named-only", t=1, misc=0, trait=False, name=True, hyper=None, uni=True, salt=4)]
        po = [dict(id="post-coef-edit", t=2, misc=2, trait=True, name=True, hyper="mixed", uni=False, salt=5,
                   post=("edit-coefficients",)),
              dict(id="post-reassign", t=1, misc=0, trait=False, name=False, hyper=None, uni=False, salt=6,
                   post=("reassign-fields",))]
        return po if tier == "post" else out + (po if post else [])
    if spec["kind"] == "pt":
        if name == "TruePhenotyping":
            return [] if tier == "post" else [dict(id="t2", t=2, salt=0), dict(id="t1", t=1, salt=1)]
        out = [dict(id="e2r2", t=2, nenv=2, nrep="arr", var="arr", salt=0),
               dict(id="e3r1", t=2, nenv=3, nrep="int", var="scalar", salt=1),
               dict(id="e1", t=1, nenv=1, nrep="int", var="arr", salt=2),
               dict(id="e2-noenv", t=2, nenv=2, nrep="arr", var="partial", salt=3)]
        po = [dict(id="post-param-edit", t=2, nenv=2, nrep="arr", var="arr", salt=4, post=("edit-protocol",))]
        return po if tier == "post" else out + (po if post else [])
    if spec["kind"] == "gmap":
        out = [dict(id="two-chr", layout=(2, 2), sorted=False, uni=True, names=True, salt=0),
               dict(id="one-chr", layout=(3,), sorted=True, uni=False, names=False, salt=1),
               dict(id="three-chr", layout=(2, 1, 1), sorted=False, uni=False, names=True, salt=2)]
        po = [  # spline_kind / fill value other than the defaults (representable in a table through the reader's options)
              dict(id="kind-nearest", layout=(3, 2), sorted=True, uni=False, names=True, salt=3, kind="nearest"),
              dict(id="fill-array", layout=(3,), sorted=True, uni=False, names=False, salt=4, fill="array"),
              dict(id="no-spline-ungrouped", layout=(2, 2), sorted=False, uni=False, names=True, salt=5,
                   auto_group=False, auto_build_spline=False),
              # states whose stored spline is NOT what a fresh build gives (documented workflow: edit, rebuild later):
              # only copies can reproduce these, a table cannot carry the interpolators
              dict(id="post-remove-stale-spline", layout=(3, 2), sorted=True, uni=False, names=True, salt=6,
                   post=("map-remove-first",), table=False),
              dict(id="post-select-drops-chr", layout=(2, 1, 1), sorted=True, uni=False, names=True, salt=7,
                   post=("map-select-first-two",), table=False),
              dict(id="user-spline", layout=(3, 2), sorted=True, uni=False, names=False, salt=8,
                   post=("map-foreign-spline",), table=False)]
        return po if tier == "post" else out + (po if post else [])
    opt = spec["opt"]
    out = []
    if not opt:
        out = [dict(id="a", n=3, m=2, t=2, present=(), grouped=False, uni=False, salt=0),
               dict(id="b", n=3, m=2, t=2, present=(), grouped=False, uni=False, salt=1),
               dict(id="small", n=2, m=1, t=1, present=(), grouped=False, uni=False, salt=2)]
        if spec["dtype"] == "float64":
            out.append(dict(id="int64", n=3, m=2, t=2, present=(), grouped=False, uni=False, salt=3, dtype="int64"))
        po = [dict(id="post-inplace-arith", n=3, m=2, t=2, present=(), grouped=False, uni=False, salt=4,
                   post=("inplace-arith",))]
        return po if tier == "post" else out + (po if post else [])
    po = [dict(id="post-ungroup", n=3, m=4, t=2, present=opt, grouped=True, uni=False, salt=6, post=("ungroup",)),
          dict(id="post-sort", n=3, m=4, t=2, present=opt, grouped=False, uni=True, salt=7, post=("sort",)),
          dict(id="post-remove", n=3, m=4, t=2, present=opt, grouped=True, uni=False, salt=8, post=("remove-first",))]
    if tier == "post":
        return po
    half = opt[: (len(opt) + 1) // 2] if len(opt) > 2 else opt[:1]
    out.append(dict(id="rich", n=3, m=4, t=2, present=opt, grouped=True, uni=True, salt=0))
    out.append(dict(id="labels", n=3, m=4, t=2, present=opt, grouped=False, uni=False, salt=1))
    out.append(dict(id="bare", n=3, m=4, t=2, present=(), grouped=False, uni=False, salt=2))
    out.append(dict(id="partial", n=2, m=3, t=1, present=half, grouped=False, uni=True, salt=3))
    # more than ten unlabelled entities along an axis and a single trait: default names need two digits
    out.append(dict(id="bare-12", n=12, m=3, t=1, present=(), grouped=False, uni=False, salt=9))
    if tier in ("thorough", "wide"):
        out.append(dict(id="rich-small", n=2, m=3, t=1, present=opt, grouped=True, uni=False, salt=4))
    if tier == "wide":
        # complement of `partial`: the later optional fields only (where independent of the earlier ones)
        rest = tuple(f for f in opt if f not in half)
        if rest:
            out.append(dict(id="partial2", n=3, m=4, t=2, present=rest, grouped=False, uni=False, salt=5))
        out += po
    return out


class PostOpUnavailable(Exception):
    """the in-place operation that should bring an object into a post-operation state raised: the profile is
    skipped (whether that operation works is the business of other properties)"""


def build_pool(name, tier, seed):
    """[(profile, object)] for every profile of the tier whose object can be built"""
    out = []
    for pr in profiles(name, tier):
        try:
            out.append((pr, build(name, pr, seed)))
        except PostOpUnavailable:
            continue
    return out


def build(name, prof, seed):
    """Construct one object of class `name` for profile `prof` through the public constructor, then apply the
    profile's in-place post-operations (if any)."""
    obj = _build(name, prof, seed)
    ops = prof.get("post", ())
    if ops:
        try:
            with quiet():
                for op in ops:
                    _post_op(name, obj, op, seed)
        except Exception as e:
            raise PostOpUnavailable(f"{name} {prof['id']}: {type(e).__name__}: {e}")
    return obj


def _post_op(name, obj, op, seed):
    if op == "ungroup":
        for m in ("ungroup_taxa", "ungroup_vrnt"):
            if hasattr(obj, m):
                getattr(obj, m)()
    elif op == "sort":
        if hasattr(obj, "sort_taxa") and obj.taxa is not None:
            obj.sort_taxa()
        if hasattr(obj, "sort_vrnt") and obj.vrnt_chrgrp is not None:
            obj.sort_vrnt()
    elif op == "remove-first":
        done = False
        if hasattr(obj, "remove_taxa"):
            obj.remove_taxa([0])
            done = True
        if hasattr(obj, "remove_vrnt"):
            obj.remove_vrnt([0])
            done = True
        if not done:
            raise RuntimeError("no in-place remove")
    elif op == "inplace-arith":
        m = obj.mat
        m[...] = m * 2 if m.dtype.kind != "b" else ~m
        flat = m.reshape(-1)
        flat[0] = flat[-1]
    elif op == "edit-coefficients":
        obj.u_a[0, 0] = 99.5
        obj.beta[-1, -1] = -0.015625
        obj.hyperparams["added-later"] = 3
        obj.hyperparams.pop("niter", None)
        obj.model_name = obj.model_name + " v2"
    elif op == "reassign-fields":
        t = obj.ntrait
        obj.u_a = numpy.arange(2 * t, dtype="float64").reshape(2, t) / 7.0
        obj.u_misc = numpy.full((1, t), 0.75)
        obj.trait = numpy.array(["späť%d" % i for i in range(t)], dtype=object)
        obj.hyperparams = {"k": 5.5}
        obj.model_name = "reassigned"
    elif op == "edit-protocol":
        obj.nrep = 3
        obj.var_err = numpy.array([0.3, 4.0])[: len(obj.var_err)]
        obj.var_env = 0.0625
    elif op == "map-remove-first":
        obj.remove([0])                          # documented: the spline is not rebuilt
    elif op == "map-select-first-two":
        obj.select([0, 1])                       # drops whole chromosomes; stored spline still has their keys
    elif op == "map-foreign-spline":
        other = _build(name, dict(id="x", layout=(3, 2), sorted=True, uni=False, names=False, salt=11), seed + 3)
        obj.spline = dict(other.spline)
        obj.spline_kind = "linear"
    else:
        raise KeyError(op)


def _build(name, prof, seed):
    spec = CLASSES[name]
    cls = get_class(name)
    a = alphabet(seed)
    kind = spec["kind"]
    if kind == "gmod":
        return _build_gmod(name, cls, prof, seed)
    if kind == "pt":
        return _build_pt(name, cls, prof, seed)
    if kind == "gmap":
        return _build_gmap(name, cls, prof, seed)
    n, m, t = prof["n"], prof["m"], prof["t"]
    dims = {"n": n, "m": m, "t": t, "2": 2}
    shape = tuple(dims[c] for c in spec["shape"])
    dtype = prof.get("dtype", spec["dtype"])
    salt = prof["salt"]
    if dtype == "int8":
        mat = _i8vals(shape, seed, salt)
    elif dtype == "int64":
        mat = (numpy.arange(int(numpy.prod(shape)), dtype="int64") * 1000003 - 7 * salt).reshape(shape)
    else:
        mat = _fvals(shape, seed, salt)
    kw = dict(mat=mat)
    present = set(prof["present"])
    uni = prof["uni"]
    rot = salt % 2

    def pick(lst, k):
        lst = lst[rot:] + lst[:rot]
        return lst[:k]

    if "taxa" in present:
        kw["taxa"] = numpy.array(pick(a["taxa_uni"] if uni else a["taxa_ascii"], n), dtype=object)
    if "taxa_grp" in present:
        kw["taxa_grp"] = numpy.array(pick(a["grp"], n), dtype="int64")
    if "trait" in present:
        kw["trait"] = numpy.array(pick(a["trait_uni"] if uni else a["trait_ascii"], t), dtype=object)
    if "vrnt_chrgrp" in present:
        kw["vrnt_chrgrp"] = numpy.array(pick(a["chr"], m), dtype="int64")
    if "vrnt_phypos" in present:
        kw["vrnt_phypos"] = numpy.array(pick(a["pos"], m), dtype="int64")
    if "vrnt_name" in present:
        kw["vrnt_name"] = numpy.array(pick(a["vrnt_uni"] if uni else a["vrnt_ascii"], m), dtype=object)
    if "vrnt_genpos" in present:
        kw["vrnt_genpos"] = _fvals((m,), seed, salt + 7) / 50.0
        kw["vrnt_genpos"] = numpy.where(numpy.isnan(kw["vrnt_genpos"]), 0.125, kw["vrnt_genpos"])
    if "vrnt_xoprob" in present:
        kw["vrnt_xoprob"] = numpy.array(pick([0.5, 0.0, 0.25, 1.0 / 3.0], m), dtype="float64")
    if "vrnt_hapgrp" in present:
        kw["vrnt_hapgrp"] = numpy.array(pick([4, 4, 1, 9], m), dtype="int64")
    if "vrnt_hapalt" in present:
        kw["vrnt_hapalt"] = numpy.array(pick(["A", "TG", "ç" if uni else "C", "G"], m), dtype=object)
    if "vrnt_hapref" in present:
        kw["vrnt_hapref"] = numpy.array(pick(["T", "C", "G", "–" if uni else "AA"], m), dtype=object)
    if "vrnt_mask" in present:
        kw["vrnt_mask"] = numpy.array(pick([True, False, False, True], m), dtype=bool)
    if spec["scaled"]:
        kw["location"] = _fvals((t,), seed, salt + 3)
        kw["location"] = numpy.where(numpy.isnan(kw["location"]), -7.75, kw["location"])
        kw["scale"] = numpy.abs(_fvals((t,), seed, salt + 5)) + 0.5
        kw["scale"] = numpy.where(numpy.isnan(kw["scale"]), 2.25, kw["scale"])
    if spec["ploidy"]:
        kw["ploidy"] = 2 if salt % 2 == 0 else 4
    obj = cls(**kw)
    if prof["grouped"]:
        with quiet():
            if "taxa_grp" in present and hasattr(obj, "group_taxa"):
                obj.group_taxa()
            if "vrnt_chrgrp" in present and hasattr(obj, "group_vrnt"):
                obj.group_vrnt()
    return obj


def _build_gmod(name, cls, prof, seed):
    a = alphabet(seed)
    t, salt = prof["t"], prof["salt"]
    p = 3
    kw = dict(beta=_fvals((1 if salt % 2 == 0 else 2, t), seed, salt),
              u_misc=(_fvals((prof["misc"], t), seed, salt + 1) if prof["misc"] else None),
              u_a=_fvals((p, t), seed, salt + 2))
    for k in ("beta", "u_misc", "u_a"):
        if kw[k] is not None:
            kw[k] = numpy.where(numpy.isnan(kw[k]), 0.0625, kw[k])
    if name == "DenseAdditiveDominanceLinearGenomicModel":
        kw["u_d"] = numpy.where(numpy.isnan(_fvals((p, t), seed, salt + 4)), -0.5, _fvals((p, t), seed, salt + 4))
    if prof["trait"]:
        kw["trait"] = numpy.array((a["trait_uni"] if prof["uni"] else a["trait_ascii"])[:t], dtype=object)
    if prof["name"]:
        kw["model_name"] = "modèle–ŧ" if prof["uni"] else "ridge"
    h = prof["hyper"]
    if h == "mixed":
        kw["hyperparams"] = {"lambda": 0.25 + seed, "niter": 7, "method": "ML" if not prof["uni"] else "mł", "grid": numpy.array([1.0, 2.5])}
    elif h == "other":
        kw["hyperparams"] = {"alpha": -1.5, "niter": 9}
    elif h == "num":
        kw["hyperparams"] = {"lambda": 3.0}
    return cls(**kw)


def _build_pt(name, cls, prof, seed):
    gp = _build_gmod("DenseAdditiveLinearGenomicModel", get_class("DenseAdditiveLinearGenomicModel"),
                     dict(t=prof["t"], misc=0, trait=True, name=True, hyper=None, uni=False, salt=prof["salt"]), seed)
    if name == "TruePhenotyping":
        return cls(gpmod=gp)
    t, nenv, salt = prof["t"], prof["nenv"], prof["salt"]
    nrep = numpy.array([2, 1, 3][:nenv], dtype="int64") if prof["nrep"] == "arr" else 2
    if prof["var"] == "arr":
        ve = numpy.abs(_fvals((t,), seed, 2 * salt + 10)) + 0.125
        vr = numpy.abs(_fvals((t,), seed, 2 * salt + 12)) + 0.25
        vx = numpy.abs(_fvals((t,), seed, 2 * salt + 14)) + 0.5
    elif prof["var"] == "scalar":
        ve, vr, vx = 0.5 + seed, 0.0, 1.25
    else:
        ve, vr, vx = 0.0, 0.0, numpy.abs(_fvals((t,), seed, 2 * salt + 14)) + 0.5
    return cls(gpmod=gp, nenv=nenv, nrep=nrep, var_env=ve, var_rep=vr, var_err=vx, rng=numpy.random.default_rng(12345))


def _build_gmap(name, cls, prof, seed):
    a = alphabet(seed)
    lay = prof["layout"]
    chr_ = numpy.repeat(numpy.array([3, 1, 2][:len(lay)], dtype="int64") + seed, lay)
    pos, gen = [], []
    for ci, c in enumerate(lay):
        p = (numpy.arange(c, dtype="int64") + 1) * (1000 + 7 * seed) + 13 * ci
        g = (numpy.arange(c, dtype="float64") + ci * 0.03125) * (0.35 + 0.01 * seed + 0.001 * prof["salt"]) + 0.0078125
        pos.append(p)
        gen.append(g)
    pos = numpy.concatenate(pos)
    gen = numpy.concatenate(gen)
    m = len(pos)
    if not prof["sorted"]:
        perm = numpy.arange(m)[::-1].copy()
        chr_, pos, gen = chr_[perm], pos[perm], gen[perm]
    kw = dict(vrnt_chrgrp=chr_, vrnt_phypos=pos, vrnt_genpos=gen)
    if prof.get("kind"):
        kw["spline_kind"] = prof["kind"]
    if prof.get("fill") == "array":
        kw["spline_fill_value"] = numpy.array(0.03125)
    for f in ("auto_group", "auto_build_spline"):
        if f in prof:
            kw[f] = prof[f]
    if name == "ExtendedGeneticMap":
        kw["vrnt_stop"] = pos + 1
        if prof["names"]:
            names = (a["vrnt_uni"] if prof["uni"] else a["vrnt_ascii"])
            kw["vrnt_name"] = numpy.array([names[i % 4] + str(i) for i in range(m)], dtype=object)
            kw["vrnt_fncode"] = numpy.array(["C", "I", "–" if prof["uni"] else "U", "C"][:m] + ["C"] * max(0, m - 4), dtype=object)[:m]
    return cls(**kw)


# ----------------------------------------------------------------------------
@contextlib.contextmanager
def quiet():
    """the library has stray print() calls in some to_pandas methods"""
    with contextlib.redirect_stdout(io.StringIO()):
        yield


def public_properties(cls):
    out = []
    for n in dir(cls):
        if n.startswith("_"):
            continue
        for k in cls.__mro__:
            if n in vars(k):
                if isinstance(vars(k)[n], property):
                    out.append(n)
                break
    return out


SKIP_PROPS = {"rng", "spline"}    # not data: a generator / a dict of scipy interpolators (observed through interp_genpos)


def observe(obj, depth=0):
    """Observable state: every public property, recursively (ndarray -> (dtype, shape, values))."""
    if depth > 3:
        return ("deep",)
    out = {"__class__": type(obj).__name__}
    for p in public_properties(type(obj)):
        if p in SKIP_PROPS:
            continue
        try:
            with quiet():
                v = getattr(obj, p)
        except Exception as e:  # property that raises is an observation too
            out[p] = ("raises", type(e).__name__)
            continue
        out[p] = _obs_value(v, depth)
    if hasattr(obj, "interp_genpos") and hasattr(obj, "vrnt_phypos") and hasattr(obj, "has_spline"):
        out.update(_observe_map_behaviour(obj, depth))
    return out


def _observe_map_behaviour(obj, depth):
    """What the map DOES: interpolation at its own positions, at midpoints and at fixed probe positions on every
    chromosome it or its spline knows (inside and outside the data range), the spline's chromosome keys and each
    interpolator's own knots."""
    out = {}
    try:
        has = bool(obj.has_spline())
    except Exception as e:
        return {"~has_spline": ("raises", type(e).__name__)}
    out["~has_spline"] = has
    sp = obj.spline
    out["~spline_keys"] = None if sp is None else tuple(sorted(int(k) for k in sp))
    if sp is not None:
        knots = {}
        for k in sorted(sp, key=int):
            f = sp[k]
            knots[str(int(k))] = (_obs_value(numpy.asarray(getattr(f, "x", ())), depth), _obs_value(numpy.asarray(getattr(f, "y", ())), depth),
                                  repr(getattr(f, "fill_value", None)), getattr(f, "_kind", None))
        out["~spline_knots"] = knots
    if not has:
        return out
    chrs = sorted({int(c) for c in obj.vrnt_chrgrp.tolist()} | {int(k) for k in (sp or {})})
    own_c, own_p = obj.vrnt_chrgrp.astype("int64"), obj.vrnt_phypos.astype("int64")
    probes = {"own": (own_c, own_p)}
    mc_, mp_ = [], []
    for c in chrs:
        ps = sorted(own_p[own_c == c].tolist())
        for a_, b_ in zip(ps, ps[1:]):
            mc_.append(c)
            mp_.append((a_ + b_) // 2)
    probes["mid"] = (numpy.array(mc_, dtype="int64"), numpy.array(mp_, dtype="int64"))
    grid = [1, 1500, 2600, 10 ** 7]
    probes["grid"] = (numpy.repeat(numpy.array(chrs + [987654], dtype="int64"), len(grid)),
                      numpy.tile(numpy.array(grid, dtype="int64"), len(chrs) + 1))
    for key, (c, p_) in probes.items():
        vals = []
        for ci, pi in zip(c.tolist(), p_.tolist()):       # one query at a time: an out-of-range error stays local
            try:
                with warnings.catch_warnings():
                    warnings.simplefilter("ignore")
                    vals.append(float(obj.interp_genpos(numpy.array([ci]), numpy.array([pi]))[0]))
            except Exception as e:
                vals.append("raises " + type(e).__name__)
        out["~interp_genpos:" + key] = tuple(vals)
    return out


def _obs_value(v, depth):
    if v is None or isinstance(v, (bool, int, float, str, bytes)):
        return v
    if isinstance(v, numpy.ndarray):
        return v.copy()
    if isinstance(v, numpy.generic):
        return v.item()
    if isinstance(v, (tuple, list)):
        return tuple(_obs_value(x, depth) for x in v)
    if isinstance(v, dict):
        return {str(k): _obs_value(x, depth) for k, x in v.items()}
    if type(v).__module__.startswith("pybrops"):
        return observe(v, depth + 1)
    return ("opaque", type(v).__name__)


def obs_digest(o):
    return digest(_canon_obs(o))


def _canon_obs(o):
    if isinstance(o, dict):
        return tuple(sorted((k, _canon_obs(v)) for k, v in o.items()))
    if isinstance(o, tuple):
        return tuple(_canon_obs(v) for v in o)
    return canon(o)


def diff(exp, got, path="", rel=None):
    """First difference between two observations -> (path, kind, detail) or None.
    kind: 'missing' (exp has value, got None), 'stale' (exp None, got value), 'dtype', 'shape', 'value',
    'type' (str vs bytes etc.), 'field'."""
    if isinstance(exp, dict) and isinstance(got, dict):
        for k in sorted(set(exp) | set(got)):
            if k not in got:
                return (path + k, "field", "field absent in read-back")
            if k not in exp:
                return (path + k, "field", "field absent in original")
            d = diff(exp[k], got[k], path + k + ".", rel)
            if d:
                return (d[0].rstrip("."), d[1], d[2])
        return None
    p = path.rstrip(".")
    if exp is None or got is None:
        if exp is None and got is None:
            return None
        return (p, "missing" if got is None else "stale", f"expected {_short(exp)} got {_short(got)}")
    if isinstance(exp, numpy.ndarray) or isinstance(got, numpy.ndarray):
        if not (isinstance(exp, numpy.ndarray) and isinstance(got, numpy.ndarray)):
            return (p, "type", f"expected {type(exp).__name__} got {type(got).__name__}")
        if exp.dtype != got.dtype:
            return (p, "dtype", f"expected dtype {exp.dtype} got {got.dtype}")
        if exp.shape != got.shape:
            return (p, "shape", f"expected shape {exp.shape} got {got.shape}")
        if exp.dtype == object:
            el, gl = exp.ravel().tolist(), got.ravel().tolist()
            for i, (x, y) in enumerate(zip(el, gl)):
                if type(x) is not type(y):
                    return (p, "type", f"element {i}: expected {type(x).__name__} {x!r} got {type(y).__name__} {y!r}")
                if x != y:
                    return (p, "value", f"element {i}: expected {x!r} got {y!r}")
            return None
        if exp.dtype.kind in "fc":
            if rel is None:
                ok = numpy.array_equal(exp, got, equal_nan=True) and numpy.array_equal(numpy.signbit(exp), numpy.signbit(got))
            else:
                ok = bool(numpy.all(numpy.isclose(exp, got, rtol=rel, atol=1e-12, equal_nan=True)))
        else:
            ok = numpy.array_equal(exp, got)
        return None if ok else (p, "value", f"expected {_short(exp)} got {_short(got)}")
    if isinstance(exp, tuple) and isinstance(got, tuple):
        if len(exp) != len(got):
            return (p, "shape", f"expected {len(exp)} items got {len(got)}")
        for i, (x, y) in enumerate(zip(exp, got)):
            d = diff(x, y, f"{p}[{i}].", rel)
            if d:
                return (d[0].rstrip("."), d[1], d[2])
        return None
    if isinstance(exp, bool) or isinstance(got, bool):
        return None if (type(exp) is type(got) and exp == got) else (p, "value", f"expected {exp!r} got {got!r}")
    if isinstance(exp, (int, float)) and isinstance(got, (int, float)):
        if isinstance(exp, float) and isinstance(got, float) and math.isnan(exp) and math.isnan(got):
            return None
        if rel is not None and isinstance(exp, float):
            return None if math.isclose(exp, got, rel_tol=rel, abs_tol=1e-12) else (p, "value", f"expected {exp!r} got {got!r}")
        return None if exp == got else (p, "value", f"expected {exp!r} got {got!r}")
    if type(exp) is not type(got):
        return (p, "type", f"expected {type(exp).__name__} {_short(exp)} got {type(got).__name__} {_short(got)}")
    return None if exp == got else (p, "value", f"expected {_short(exp)} got {_short(got)}")


def _short(x):
    if isinstance(x, numpy.ndarray):
        return f"{x.dtype}{list(x.shape)}{x.ravel().tolist()[:8]}"
    s = repr(x)
    return s if len(s) < 120 else s[:117] + "..."


# ----------------------------------------------------------------------------
# HDF5 file as h5py reports it
def h5_state(path):
    """Canonical content of an HDF5 file: {dataset path: (dtype str, shape, values)} ; {} if no file."""
    import h5py
    out = {}
    if not os.path.exists(path):
        return out
    with h5py.File(path, "r") as f:
        names = []
        f.visit(names.append)
        fid = f.id
        for n in names:
            oid = h5py.h5o.open(fid, n.encode("utf8"))
            if type(oid) is h5py.h5d.DatasetID:
                v = h5py.Dataset(oid)[()]
                if isinstance(v, numpy.ndarray):
                    out[n] = ("O" if v.dtype == object else v.dtype.str, v.shape,
                              tuple(v.ravel().tolist()) if v.dtype == object else v.tobytes())
                else:
                    out[n] = ("scalar:" + type(v).__name__, (), v if isinstance(v, bytes) else repr(v))
            else:
                out[n + "/"] = ("group", (), None)
    return out


def norm_group(g):
    """location key of a groupname argument: None -> '', 'g/h/' -> 'g/h/', 'a/b' -> 'a/b/'"""
    if g is None:
        return ""
    return g if g.endswith("/") else g + "/"


def under(state, loc, others):
    """Datasets of `state` that lie under location `loc` but not under a deeper location in `others`."""
    deeper = [o for o in others if o != loc and o.startswith(loc)]
    out = {}
    for k, v in state.items():
        if not k.startswith(loc) or v[0] == "group":
            continue
        if any(k.startswith(o) for o in deeper):
            continue
        out[k[len(loc):]] = v
    return out


# ----------------------------------------------------------------------------
# table forms (pandas / CSV / dict-of-frames): the valid "matching option" sets per family.
# A case is (case_id, write_kwargs, read_kwargs, cmp) where cmp names the comparison mode.
LONG = {
    # family: (taxa col params per taxa axis, grp col params per taxa axis, trait col params, value col param)
    "v2": (["female_col", "male_col"], ["female_grp_col", "male_grp_col"], ["trait_col"], "variance_col"),
    "v3": (["recurrent_col", "female_col", "male_col"], ["recurrent_grp_col", "female_grp_col", "male_grp_col"],
           ["trait_col"], "variance_col"),
    "v4": (["female2_col", "male2_col", "female1_col", "male1_col"],
           ["female2_grp_col", "male2_grp_col", "female1_grp_col", "male1_grp_col"], ["trait_col"], "variance_col"),
    "c2": (["female_col", "male_col"], ["female_grp_col", "male_grp_col"], ["trait1_col", "trait2_col"], "covariance_col"),
    "c3": (["recurrent_col", "female_col", "male_col"], ["recurrent_grp_col", "female_grp_col", "male_grp_col"],
           ["trait1_col", "trait2_col"], "covariance_col"),
    "c4": (["female2_col", "male2_col", "female1_col", "male1_col"],
           ["female2_grp_col", "male2_grp_col", "female1_grp_col", "male1_grp_col"], ["trait1_col", "trait2_col"],
           "covariance_col"),
    "long2": (["taxa1_col", "taxa2_col"], ["taxa1_grp_col", "taxa2_grp_col"], ["trait_col"], "value_col"),
}
# families whose to_* and from_* defaults name the same columns (so "all defaults" is a matching option set)
DEFAULTS_MATCH = {"v2", "v3", "v4", "c2", "c3", "c4", "long", "bv", "cmat", "gmod", "gmap"}


def _colpos(obj, w, wanted):
    """integer positions of the columns named `wanted` in the frame the writer produces with options `w`"""
    with quiet():
        cols = [str(c) for c in obj.to_pandas(**{k: v for k, v in w.items() if k != "header"}).columns]
    return [cols.index(str(c)) for c in wanted]


def table_cases(name, obj, tier):
    """Matching (write options, read options) pairs that are valid for `obj` (decided from documented
    preconditions: label columns are only requested for labels the object has)."""
    fam = CLASSES[name]["pandas"]
    has = lambda f: getattr(obj, f, None) is not None
    cases = []
    if fam in LONG:
        tcols, gcols, trcols, vcol = LONG[fam]
        grp = has("taxa_grp")
        def mk(cid, namer, index_read=False):
            w, r = {}, {}
            cols = []
            for tc, gc in zip(tcols, gcols):
                w[tc] = namer(tc); cols.append(w[tc])
                if grp:
                    w[gc] = namer(gc); cols.append(w[gc])
                else:
                    w[gc] = None
            for c in trcols:
                w[c] = namer(c); cols.append(w[c])
            w[vcol] = namer(vcol); cols.append(w[vcol])
            r = dict(w)
            if index_read:
                r = {k: (None if v is None else cols.index(v)) for k, v in w.items()}
            return (cid, w, r, "long")
        if grp and fam in DEFAULTS_MATCH:
            cases.append(("defaults", {}, {}, "long"))
        dflt = lambda p: p[:-4]
        cases.append(("default-names-explicit", ) + mk("x", dflt)[1:])
        cases.append(("custom-names", ) + mk("x", lambda p: "ç–" + p[:-4].upper())[1:])
        cases.append(("read-by-index", ) + mk("x", dflt, index_read=True)[1:])
        _, w, r, c_ = mk("x", dflt, index_read=True)
        cases.append(("csv:headerless-by-index", dict(w, header=False), dict(r, header=None), c_))
        return cases
    if fam == "long":
        nax = len(obj.square_taxa_axes)
        grp = has("taxa_grp")
        g_w = True if grp else None
        cases.append(("defaults", dict(taxa_grp_colnames=g_w), dict(taxa_grp_colnames=g_w, ntaxaaxes=nax), "long"))
        tn = ["tx–%d" % i for i in range(nax)]
        gn = ["gr–%d" % i for i in range(nax)] if grp else None
        cases.append(("custom-names", dict(taxa_colnames=tn, taxa_grp_colnames=gn, trait_colnames="ŧr", value_colname="val"),
                      dict(taxa_colnames=tn, taxa_grp_colnames=gn, trait_colnames="ŧr", value_colname="val", ntaxaaxes=nax), "long"))
        if grp:
            cases.append(("grp-false", dict(taxa_grp_colnames=False), dict(taxa_grp_colnames=False, ntaxaaxes=nax), "long-nogrp"))
        # every column given by integer position (the trait column too: documented as `str, Integral`)
        ng = nax if grp else 0
        r_ix = dict(taxa_colnames=list(range(nax)), taxa_grp_colnames=(list(range(nax, 2 * nax)) if grp else None),
                    trait_colnames="trait_0", value_colname=nax + ng + 1, ntaxaaxes=nax)
        cases.append(("read-by-index", dict(taxa_grp_colnames=g_w), r_ix, "long"))
        cases.append(("read-by-index-trait-too", dict(taxa_grp_colnames=g_w), dict(r_ix, trait_colnames=nax + ng), "long"))
        cases.append(("csv:headerless-by-index", dict(taxa_grp_colnames=g_w, header=False),
                      dict(r_ix, trait_colnames=nax + ng, header=None), "long"))
        return cases
    if fam == "bv":
        tx = "taxa" if has("taxa") else None
        tg = "taxa_grp" if has("taxa_grp") else None
        base_w = dict(taxa_col=tx, taxa_grp_col=tg)
        cases.append(("unscale-infer", dict(base_w, unscale=True), dict(base_w), "bv"))
        cx = "Ŧaxa" if has("taxa") else None
        cg = "grp–col" if has("taxa_grp") else None
        cases.append(("custom-label-cols", dict(taxa_col=cx, taxa_grp_col=cg, unscale=True), dict(taxa_col=cx, taxa_grp_col=cg), "bv"))
        t = obj.ntrait
        names = ["col%d–é" % i for i in range(t)]
        cases.append(("explicit-trait-cols", dict(base_w, trait_cols=names, unscale=True), dict(base_w, trait_cols=names), "bv-traitnames"))
        cases.append(("numeric-trait-cols", dict(base_w, trait_cols=None, unscale=True), dict(base_w), "bv-traitnum"))
        nlab = (1 if tx else 0) + (1 if tg else 0)
        r_ix = dict(taxa_col=(0 if tx else None), taxa_grp_col=((1 if tx else 0) if tg else None))
        cases.append(("read-by-index", dict(base_w, unscale=True), dict(r_ix), "bv"))
        cases.append(("read-by-index-traits-too", dict(base_w, unscale=True), dict(r_ix, trait_cols=list(range(nlab, nlab + t))), "bv"))
        cases.append(("csv:headerless-by-index", dict(base_w, unscale=True, header=False),
                      dict(r_ix, trait_cols=list(range(nlab, nlab + t)), header=None), "bv-traitnum"))
        cases.append(("scaled-with-location-scale", dict(base_w, unscale=False),
                      dict(base_w, location=obj.location.copy(), scale=obj.scale.copy()), "bv-param"))
        return cases
    if fam == "cmat":
        tg = "taxa_grp" if has("taxa_grp") else None
        cases.append(("defaults", dict(taxa_grp_col=tg), dict(taxa_grp_col=tg), "cmat"))
        if not has("taxa_grp"):
            cases.append(("all-None-grp-column", dict(), dict(), "cmat"))
        cg = "grp–col" if has("taxa_grp") else None
        cases.append(("custom-names", dict(taxa_col="Ŧaxa", taxa_grp_col=cg), dict(taxa_col="Ŧaxa", taxa_grp_col=cg), "cmat"))
        if has("taxa"):
            seq = [str(x) for x in obj.taxa.tolist()]
            cases.append(("explicit-taxa-seq", dict(taxa_grp_col=tg, taxa=seq), dict(taxa_grp_col=tg, taxa=seq), "cmat"))
        cases.append(("read-by-index", dict(taxa_grp_col=tg), dict(taxa_col=0, taxa_grp_col=(1 if tg else None)), "cmat"))
        return cases
    if fam == "gmod":
        common = dict(model_name=obj.model_name, hyperparams=dict(obj.hyperparams))
        cases.append(("defaults", dict(), dict(common), "gmod"))
        names = ["col%d–é" % i for i in range(obj.ntrait)]
        cases.append(("explicit-trait-cols", dict(trait_cols=names), dict(common, trait_cols=names), "gmod-traitnames"))
        cases.append(("numeric-trait-cols", dict(trait_cols=None), dict(common), "gmod-traitnum"))
        ix = list(range(obj.ntrait))
        cases.append(("trait-cols-by-index", dict(), dict(common, trait_cols=ix), "gmod-traitnum"))
        if all(getattr(obj, f).shape[0] > 0 for f in ("beta", "u_misc", "u_a")):      # an empty header-less file has no columns
            cases.append(("csv:headerless-by-index", dict(header=False), dict(common, trait_cols=ix, header=None), "gmod-traitnum"))
        return cases
    if fam == "gmap":
        ext = name == "ExtendedGeneticMap"
        opt = has("vrnt_name") if ext else False
        common = {}
        if not obj.is_grouped():
            common.update(auto_group=False)
        if not obj.has_spline():
            common.update(auto_build_spline=False)
        if obj.spline_kind not in (None, "linear"):
            common.update(spline_kind=obj.spline_kind)
        if isinstance(obj.spline_fill_value, numpy.ndarray):
            common.update(spline_fill_value=obj.spline_fill_value.copy())
        for units in ("cM", "M", "centiMorgans", "Morgans"):
            w = dict(vrnt_genpos_units=units)
            r = dict(common, vrnt_genpos_units=units)
            if opt:
                r.update(vrnt_name_col="name", vrnt_fncode_col="fncode")
            cases.append(("units-" + units, w, r, "gmap"))
        w = dict(vrnt_chrgrp_col="ĉhr", vrnt_phypos_col="p", vrnt_genpos_col="Morgan", vrnt_genpos_units="M")
        r = dict(common, **w)
        if ext:
            w.update(vrnt_stop_col="end", vrnt_name_col="id", vrnt_fncode_col="fc")
            r.update(vrnt_stop_col="end")
            if opt:
                r.update(vrnt_name_col="id", vrnt_fncode_col="fc")
        cases.append(("custom-names", w, r, "gmap"))
        # every column (the optional ones too) given by integer position; header-less CSV
        for cid, units, extra_w, extra_r in (("read-by-index", "cM", {}, {}), ("csv:headerless-by-index", "M", dict(header=False), dict(header=None))):
            w = dict(vrnt_genpos_units=units)
            keys = ["vrnt_chrgrp_col", "vrnt_phypos_col"] + (["vrnt_stop_col"] if ext else []) + ["vrnt_genpos_col"]
            names = ["chr", "pos"] + (["stop"] if ext else []) + ["cM"]
            if opt:
                keys += ["vrnt_name_col", "vrnt_fncode_col"]
                names += ["name", "fncode"]
            r = dict(common, vrnt_genpos_units=units, **dict(zip(keys, _colpos(obj, w, names))))
            cases.append((cid, dict(w, **extra_w), dict(r, **extra_r), "gmap"))
        return cases
    return cases
