"""Fixtures for C05: small populations (raw python data + the pybrops objects built from them), value alphabets
rotated by VERIF_SEED, decision enumerations and evaluation configurations.  No oracle lives here."""
from __future__ import annotations
import itertools
from fractions import Fraction as Fr
import numpy

from .. import compat  # noqa: F401
from . import criteria as R

M = 4          # markers
T = 2          # traits

# phased genotypes: [variant][taxon] = (haplotype 0, haplotype 1) over M markers
PHASED = {
    0: [((1, 0, 1, 0), (1, 1, 0, 0)), ((0, 0, 1, 1), (0, 1, 1, 1)), ((1, 1, 0, 1), (0, 0, 0, 1)), ((0, 1, 1, 0), (1, 1, 0, 1))],
    # marker 2 monomorphic (allele 1 fixed in the population), taxon 1 completely homozygous
    1: [((1, 0, 1, 1), (0, 0, 1, 0)), ((0, 1, 1, 1), (0, 1, 1, 1)), ((1, 1, 1, 0), (1, 0, 1, 0)), ((1, 0, 1, 1), (1, 1, 1, 1))],
    # inbred lines (both phases equal)
    2: [((1, 0, 1, 0), (1, 0, 1, 0)), ((0, 1, 1, 1), (0, 1, 1, 1)), ((1, 1, 0, 1), (1, 1, 0, 1)), ((0, 0, 1, 0), (0, 0, 1, 0))],
}
TAXA = ["T2", "T0", "T3", "T1"]          # deliberately not sorted
TAXA_GRP = [7, 3, 7, 5]                  # families: not sorted, not contiguous, one repeated
LAYOUTS = {"2x2": (2, 2), "1x4": (4,)}   # markers per chromosome

BV = [
    [[1.5, -2.0], [0.25, 4.0], [3.0, 0.5], [-1.0, 2.5]],
    [[-0.5, 8.0], [2.0, 2.0], [2.0, -3.0], [7.0, 0.125]],      # tie in trait 0
    [[10.0, 1.0], [-4.0, 1.0], [0.0, 1.0], [6.5, 1.0]],        # constant trait 1
]
U = [
    [[1.0, -2.0], [0.5, 0.0], [-1.5, 3.0], [2.0, 1.0]],         # a zero effect
    [[-1.0, 0.25], [2.0, -0.5], [0.75, 1.0], [-3.0, -2.0]],
    [[0.5, 0.5], [-0.5, 1.5], [1.0, -1.0], [0.0, 2.0]],
]
BETA = [[10.0, 20.0], [-1.0, 0.5], [0.0, 3.0]]
LOCSCALE = [([2.0, -1.0], [0.5, 4.0]), ([0.0, 3.0], [2.0, 1.0]), ([-5.0, 0.25], [1.5, 0.75])]
TFREQ = [
    [[0.0, 1.0], [1.0, 0.0], [0.5, 0.25], [1.0, 1.0]],
    [[1.0, 0.5], [0.0, 0.0], [0.75, 1.0], [0.0, 1.0]],
    [[0.25, 0.0], [1.0, 1.0], [0.0, 0.5], [1.0, 0.0]],
]
WEIGHTS = [(-1.0, 1.0, 2.0), (-2.0, 1.0, 0.5), (-1.0, 3.0, 2.0)]
KGEN = [[2.0, 0.5, -0.25, 0.125], [0.5, 1.5, 0.75, 0.0], [-0.25, 0.75, 1.0, 0.25], [0.125, 0.0, 0.25, 0.875]]


def A(x, dtype=float):
    return numpy.array(x, dtype=dtype)


class Fx:
    """One population: raw python data in *population order* (after applying `perm` to the base rows)."""

    def __init__(self, n, variant, seed, perm=None, layout="2x2", shared=False):
        self.n, self.variant, self.seed, self.layout = n, variant, seed % 3, layout
        self.shared = shared          # shared: the pybrops input objects are created once and handed to every factory call
        self._objs = {}
        self._args = {}
        self.perm = tuple(perm) if perm is not None else tuple(range(n))
        assert sorted(self.perm) == list(range(n))
        rows = [PHASED[variant][i] for i in self.perm]
        self.phased = [[list(r[ph]) for r in rows] for ph in range(2)]          # [phase][taxon][marker]
        self.counts = R.counts_of(self.phased)
        self.taxa = [TAXA[i] for i in self.perm]
        self.grp = [TAXA_GRP[i] for i in self.perm]
        self.bv = [list(BV[self.seed][i]) for i in self.perm]
        self.u = [list(r) for r in U[self.seed]]
        self.u_nz = [[v if v != 0.0 else 0.75 for v in r] for r in self.u]
        self.beta = list(BETA[self.seed])
        self.loc, self.scale = LOCSCALE[self.seed]
        self.tfreq = [list(r) for r in TFREQ[self.seed]]
        self.mkrwt = [[abs(v) for v in r] for r in self.u]
        self.wts = WEIGHTS[self.seed]
        self.chrom = LAYOUTS[layout]
        self.kgen = [[KGEN[i][j] for j in self.perm] for i in self.perm]
        assert R.is_clearly_pd(self.kgen)

    def key(self):
        return dict(n=self.n, variant=self.variant, seed=self.seed, perm=list(self.perm), layout=self.layout)

    # ---- raw helpers --------------------------------------------------------------------------------
    def genpos(self):
        return [j * 0.25 for c in self.chrom for j in range(c)]

    def blocks(self, nhaploblk):
        """Marker index lists of the haplotype blocks: equal-width bins over each chromosome's genetic span,
        chromosomes of equal length get equally many blocks (only such designs are generated)."""
        nchr = len(self.chrom)
        assert nhaploblk % nchr == 0
        per = nhaploblk // nchr
        out, st = [], 0
        for c in self.chrom:
            span = Fr(c - 1, 4)
            width = span / per
            bl = [[] for _ in range(per)]
            for j in range(c):
                pos = Fr(j, 4)
                q = pos / width
                assert q.denominator != 1 or q in (0, per), "marker on an inner block boundary: ambiguous design"
                b = min(int(q), per - 1)
                bl[b].append(st + j)
            assert all(bl), "empty block: invalid design"
            out += bl
            st += c
        return out

    def value_matrix(self, N, salt=0):
        """(N,T) matrix of distinct, non-monotone dyadic values (for criteria that take a ready value matrix)."""
        return [[((i * 5 + 3 * t + self.seed * 7 + salt) % 11) * 0.5 - 2.0 + (0.125 if i == 1 else 0.0) for t in range(T)]
                for i in range(N)]

    # ---- pybrops objects ----------------------------------------------------------------------------
    def _vrnt(self):
        chrgrp = [ci + 1 for ci, c in enumerate(self.chrom) for _ in range(c)]
        phypos = [(j + 1) * 10 for c in self.chrom for j in range(c)]
        xoprob = [0.5 if j == 0 else 0.2 for c in self.chrom for j in range(c)]
        return dict(vrnt_chrgrp=A(chrgrp, "int64"), vrnt_phypos=A(phypos, "int64"),
                    vrnt_name=numpy.array([f"m{j}" for j in range(M)], dtype=object),
                    vrnt_genpos=A(self.genpos()), vrnt_xoprob=A(xoprob))

    def _memo(self, key, make):
        if not self.shared:
            return make()
        if key not in self._objs:
            self._objs[key] = make()
        return self._objs[key]

    def arg(self, name, arr):
        """Register an array that is handed to a factory as an argument (checked for being left untouched)."""
        if self.shared:
            if name in self._args:
                return self._args[name][0]
            self._args[name] = (arr, arr.copy())
        return arr

    def pgmat(self):
        return self._memo("pgmat", self._pgmat)

    def gmat(self):
        return self._memo("gmat", self._gmat)

    def gpmod(self, u=None):
        return self._memo("gpmod" if (u is None or u is self.u) else "gpmod_nz", lambda: self._gpmod(u))

    def bvmat(self):
        return self._memo("bvmat", self._bvmat)

    def _pgmat(self):
        from pybrops.popgen.gmat.DensePhasedGenotypeMatrix import DensePhasedGenotypeMatrix
        pg = DensePhasedGenotypeMatrix(mat=A(self.phased, "int8"), taxa=numpy.array(self.taxa, dtype=object),
                                       taxa_grp=A(self.grp, "int64"), **self._vrnt())
        pg.group_vrnt()
        return pg

    def _gmat(self):
        from pybrops.popgen.gmat.DenseGenotypeMatrix import DenseGenotypeMatrix
        g = DenseGenotypeMatrix(mat=A(self.counts, "int8"), taxa=numpy.array(self.taxa, dtype=object),
                                taxa_grp=A(self.grp, "int64"), ploidy=2, **self._vrnt())
        g.group_vrnt()
        return g

    def _gpmod(self, u=None):
        from pybrops.model.gmod.DenseAdditiveLinearGenomicModel import DenseAdditiveLinearGenomicModel
        return DenseAdditiveLinearGenomicModel(beta=A([self.beta]), u_misc=None, u_a=A(self.u if u is None else u),
                                               trait=numpy.array(["y0", "y1"], dtype=object))

    def _bvmat(self):
        """Breeding value matrix whose *stored* (scaled) values are self.bv, with a non-trivial location/scale."""
        from pybrops.popgen.bvmat.DenseBreedingValueMatrix import DenseBreedingValueMatrix
        return DenseBreedingValueMatrix(mat=A(self.bv), location=A(self.loc), scale=A(self.scale),
                                        taxa=numpy.array(self.taxa, dtype=object), taxa_grp=A(self.grp, "int64"),
                                        trait=numpy.array(["y0", "y1"], dtype=object))


    # ---- observable state of every input object handed out so far ----------------------------------------
    def input_state(self):
        from ..fix import snapshot
        out = {}
        for key, o in sorted(self._objs.items()):
            if key in ("pgmat", "gmat"):
                st = snapshot(o)
            elif key == "bvmat":
                st = {f: _cp(getattr(o, f)) for f in ("mat", "location", "scale", "taxa", "taxa_grp", "trait")}
                st["unscale()"] = _cp(o.unscale())
            else:
                st = {f: _cp(getattr(o, f)) for f in ("beta", "u_a", "u_misc", "trait")}
            for f, v in st.items():
                out[f"{key}.{f}"] = v
        for name, (arr, orig) in sorted(self._args.items()):
            out[f"argument:{name}"] = arr.copy()
        return out

    def pristine_args(self):
        return {f"argument:{name}": orig for name, (arr, orig) in self._args.items()}


def _cp(v):
    return v.copy() if isinstance(v, numpy.ndarray) else v


def first_difference(a, b):
    """Name of the first entry of snapshot a that differs from snapshot b (only keys present in both)."""
    from ..core import same
    for k in sorted(a):
        if k not in b:
            continue
        x, y = a[k], b[k]
        if isinstance(x, numpy.ndarray) or isinstance(y, numpy.ndarray):
            if not same(x, y) or (x is not None and y is not None and numpy.asarray(x).dtype != numpy.asarray(y).dtype):
                return k
        elif x != y:
            return k
    return None


# ------------------------------------------------------------------------------------------------------
# decisions
GRID = (Fr(0), Fr(1, 4), Fr(1, 2), Fr(1))
SCALES = (Fr(1), Fr(1, 2), Fr(3))


def subset_decisions(N, kmax=3):
    """(k, x, repeated?) — all ordered k-subsets with distinct members, then all ordered sequences with a repeat."""
    for k in range(1, min(kmax, N) + 1):
        for x in itertools.permutations(range(N), k):
            yield k, x, False
    for k in range(2, kmax + 1):
        for x in itertools.product(range(N), repeat=k):
            if len(set(x)) < k:
                yield k, x, True


def integer_decisions(N, smax=4):
    def rec(i, left):
        if i == N - 1:
            for v in range(left + 1):
                yield (v,)
            return
        for v in range(left + 1):
            for rest in rec(i + 1, left - v):
                yield (v,) + rest
    for x in rec(0, smax):
        if sum(x) > 0:
            yield x


def binary_decisions(N):
    for x in itertools.product((0, 1), repeat=N):
        if any(x):
            yield x


def real_decisions(N, max_support=None):
    """(x as Fractions, scale) on the grid and its positive rescalings; with max_support only vectors with at most
    that many non-zero entries (a structural restriction used for large decision spaces)."""
    for g in itertools.product(GRID, repeat=N):
        nz = sum(1 for v in g if v)
        if nz == 0 or (max_support is not None and nz > max_support):
            continue
        for s in SCALES:
            yield tuple(v * s for v in g), s


def to_array(enc, x):
    if enc == "real":
        return numpy.array([float(v) for v in x], dtype="float64")
    return numpy.array([int(v) for v in x], dtype="int64")


# ------------------------------------------------------------------------------------------------------
# evaluation configurations
def user_trans(decnvec, latentvec, shift=0.0, scale=1.0, **kwargs):
    """A user transformation with keyword arguments that also looks at the decision vector."""
    return scale * latentvec[::-1] + shift + decnvec.sum()


OBJ_KINDS = ("id", "sum", "dot", "user")
INEQ_KINDS = ("none", "sum", "user")
EQ_KINDS = ("none", "dot", "id", "empty")


def trans_spec(kind, L, explicit):
    """-> (callable or None, kwargs or None, output length, reference function(x_list, lat_list) -> list)."""
    from pybrops.breed.prot.sel.prob import trans as Tm
    if kind == "none":
        return None, None, 0, lambda x, lat: []
    if kind == "empty":
        return Tm.trans_empty, ({} if explicit else None), 0, lambda x, lat: []
    if kind == "id":
        return (Tm.trans_identity if explicit else None), None, L, lambda x, lat: list(lat)
    if kind == "sum":
        return Tm.trans_sum, ({} if explicit else None), 1, R.t_sum
    if kind == "dot":
        w = ([1.0, -2.0, 3.0, 0.5, -1.5, 2.5, 4.0, -0.25] + [0.5 * ((j * 3) % 7) - 1.25 for j in range(8, L)])[:L]
        assert len(w) == L
        return Tm.trans_dot, {"latentvec_wt": A(w)}, 1, lambda x, lat: R.t_dot(x, lat, w)
    if kind == "user":
        return user_trans, {"shift": 0.5, "scale": -2.0}, L, \
            lambda x, lat: [-2.0 * v + 0.5 + float(sum(x)) for v in reversed(lat)]
    raise KeyError(kind)


def weight_menu(L, alphabet):
    """Forms a weight block can take: None (-> ones), a scalar (-> repeated), an explicit array."""
    if L == 0:
        return [("none", None), ("array", ())]
    menu = [("none", None)] + [("scalar", a) for a in alphabet]
    if L <= 2:
        vecs = list(itertools.product(alphabet, repeat=L))
    else:
        base = [alphabet[i % 3] for i in range(L)]
        vecs = [tuple(base[(i + r) % L] for i in range(L)) for r in range(3)] + [tuple(reversed(base))]
    menu += [("array", v) for v in vecs]
    return menu


def weight_value(form, L):
    kind, v = form
    if kind == "none":
        return None, [1.0] * L
    if kind == "scalar":
        return float(v), [float(v)] * L
    return A(list(v)), [float(a) for a in v]


def eval_configs(tier):
    """(obj kind, ineq kind, eq kind, weight index); the weight index walks every block's menu cyclically."""
    W = 13 if tier == "thorough" else 7
    for o in OBJ_KINDS:
        for i in INEQ_KINDS:
            for e in EQ_KINDS:
                for w in range(W):
                    yield (o, i, e, w)
