"""Reference model for C11: map functions from their literature definitions and a
genetic map as a plain list of rows.

Haldane (1919):  r = (1 - e^{-2d}) / 2        d = -ln(1 - 2r) / 2
Kosambi (1944):  r = tanh(2d) / 2             d = atanh(2r) / 2

The references are evaluated with the C library's cancellation-free primitives
(expm1 / log1p / tanh / atanh from `math`), not with numpy, so they share no code
with the implementation.  A map is a list of rows (chromosome, physical position,
genetic position, tag); interpolation is done in `fractions.Fraction` arithmetic on
the exact values of the floats supplied.
"""
from __future__ import annotations
import math
from fractions import Fraction

INF = math.inf


# ----------------------------------------------------------------------------
# map functions
def haldane(d):
    if d == INF:
        return 0.5
    return -0.5 * math.expm1(-2.0 * d)


def haldane_inv(r):
    if r >= 0.5:
        return INF
    return -0.5 * math.log1p(-2.0 * r)


def kosambi(d):
    if d == INF:
        return 0.5
    return 0.5 * math.tanh(2.0 * d)


def kosambi_inv(r):
    if r >= 0.5:
        return INF
    return 0.5 * math.atanh(2.0 * r)


MAPFN = {"Haldane": haldane, "Kosambi": kosambi}
INVFN = {"Haldane": haldane_inv, "Kosambi": kosambi_inv}


def mapfn_nan(name, d):
    """Reference map function extended to NaN (missing distance stays missing)."""
    if d != d:
        return math.nan
    return MAPFN[name](d)


def inv_condition(name, d):
    """|d invmapfn / d r| at r = mapfn(d): how much one rounding error in r is amplified
    when the distance is recovered (e^{2d} for Haldane, cosh^2(2d) for Kosambi)."""
    try:
        if name == "Haldane":
            return math.exp(2.0 * d)
        return math.cosh(2.0 * d) ** 2
    except OverflowError:
        return INF


def roundtrip_tolerance(name, d):
    """Admissible |invmapfn(mapfn(d)) - d|: the framework's relative 1e-9 / absolute
    1e-12 plus 16 roundings of r (r <= 1/2, one rounding = 2^-53) amplified by the
    conditioning of the inverse.  Where this exceeds d/4 the function is saturated
    (r is indistinguishable from 1/2 in binary64) and no round trip is demanded."""
    c = inv_condition(name, d)
    tol = 1e-9 * d + 1e-12 + 16.0 * 2.0 ** -53 * c
    return tol, (tol > 0.25 * d and d > 1.0)


# ----------------------------------------------------------------------------
# genetic map as a list of rows
class MapModel:
    """rows: iterable of (chrom:int, phys:int, gen:float, tag) in any order."""

    def __init__(self, rows):
        self.rows = sorted((tuple(r) for r in rows), key=lambda r: (r[0], r[1]))
        self.chroms = []
        self.by_chr = {}
        for r in self.rows:
            if r[0] not in self.by_chr:
                self.by_chr[r[0]] = []
                self.chroms.append(r[0])
            self.by_chr[r[0]].append((r[1], Fraction(r[2])))

    def valid(self):
        """Documented validity domain of the property: >= 2 markers per chromosome and
        no duplicated physical position within a chromosome."""
        for c, pts in self.by_chr.items():
            xs = [p[0] for p in pts]
            if len(xs) < 2 or len(set(xs)) != len(xs):
                return False
        return True

    def congruent(self):
        for pts in self.by_chr.values():
            if any(pts[i][1] > pts[i + 1][1] for i in range(len(pts) - 1)):
                return False
        return True

    def nonconstant(self):
        return any(pts[i][1] != pts[i + 1][1] for pts in self.by_chr.values() for i in range(len(pts) - 1))

    def groups(self):
        """(names, start indices, stop indices, lengths) of the chromosome runs of the
        canonical (sorted) row order."""
        name, st, sp, ln = [], [], [], []
        i = 0
        for c in self.chroms:
            k = len(self.by_chr[c])
            name.append(c); st.append(i); sp.append(i + k); ln.append(k)
            i += k
        return name, st, sp, ln

    def interp(self, chrom, x):
        """-> None (chromosome absent) or (where, value) with where in
        {"knot","inside","below","above"}; value is the exact linearly interpolated
        position (for below/above: the linear continuation of the end segment, which the
        property does not demand and which is only used for statistics)."""
        pts = self.by_chr.get(chrom)
        if pts is None:
            return None
        for px, pg in pts:
            if px == x:
                return ("knot", pg)
        if x < pts[0][0]:
            (x0, g0), (x1, g1) = pts[0], pts[1]
            return ("below", g0 + Fraction(x - x0, x1 - x0) * (g1 - g0))
        if x > pts[-1][0]:
            (x0, g0), (x1, g1) = pts[-2], pts[-1]
            return ("above", g0 + Fraction(x - x0, x1 - x0) * (g1 - g0))
        for (x0, g0), (x1, g1) in zip(pts, pts[1:]):
            if x0 < x < x1:
                return ("inside", g0 + Fraction(x - x0, x1 - x0) * (g1 - g0))
        raise AssertionError("unreachable")

    def end_values(self, chrom):
        pts = self.by_chr[chrom]
        return pts[0], pts[-1]


def pair_distance(c1, g1, c2, g2):
    """Pairwise genetic distance of two positioned markers (Fractions / floats)."""
    if c1 != c2:
        return INF
    return abs(g1 - g2)
