"""Reference model for C12: exact progeny mean / variance / covariance of doubled-haploid
crosses by exhaustive gamete enumeration, written from genetics first principles (no D-matrix
formulas, no code shared with pybrops).

Pedigrees (class docstrings of the variance matrices + the mating protocols of C01, see
mc/ref/mating.py for the xconfig column conventions):

  2way      [female, male]                     F1 = female x male;                    self^k; DH
  3way      [recurrent, female, male]          F1 = female x male; BC = recurrent x F1; self^k; DH
  4way      [female2, male2, female1, male1]   (female1 x male1) x (female2 x male2); self^k; DH
  dihybrid  [female, male] (phased, any)       F1 = female x male;                    self^k; DH

`k = nself` selfing generations are applied to the last hybrid of the cross pattern and one doubled
haploid line is made from one gamete of the resulting plant.  The progeny value of trait t is
G_t = sum_j 2 x_j u[j,t] (x_j in {0,1} the allele of the DH line; the library's GEBV is Z u with
Z = x + x in {0,2}).

A meiosis of an individual with copies (h0, h1) walks along the markers, starts on copy 0 or 1
with probability 1/2 and changes copy in front of marker j with probability radj[j] independently
of everything else (no interference); radj[j] is Haldane's r for the map distance to the previous
marker and 1/2 at the first marker of every chromosome.

Two independent enumerations are provided and cross-checked against each other on every call:

 (A) `Multilocus`: the gamete kernel K[a,b,g] of EVERY genotype (a,b) is built by enumerating all
     2^m (start copy, crossover pattern) combinations with their exact weights; the pedigree is
     then evaluated on exact genotype distributions (all individuals that can arise, with their
     probabilities), including every selfing generation.
 (B) `pair_chain`: for one pair of markers the 10 phased two-locus genotypes are enumerated
     explicitly, the selfing generations are an explicitly enumerated Markov chain on them (the
     10 x 10 transition matrix is filled by enumerating the 4 x 4 gamete pairs of every state; k
     generations = its k-th power, nself = inf = the limit reached by repeated squaring); the
     variance of an additive value only needs these pairwise distributions.

In (A) the selfing map on multi-locus genotype distributions is likewise the explicit operator
S[(a,b),(g,h)] = K[a,b,g] K[a,b,h] raised to the k-th power.  Nothing here uses the closed forms
(1-2r_k, 1-4r+4r r_k, 2r/(1+2r)) of the library.
"""
from __future__ import annotations
import itertools
import math
import numpy

INF = float("inf")
NPARENT = {"2way": 2, "3way": 3, "4way": 4, "dihybrid": 2}
# expected parental genome contributions as implied by the pedigree (checked against enumeration)


def haldane(d):
    """Recombination probability for a map distance of d Morgans without interference."""
    return 0.5 * (1.0 - math.exp(-2.0 * float(d)))


class Layout:
    """Chromosome sizes + genetic positions (Morgans, ascending inside a chromosome)."""

    def __init__(self, chrom_sizes, genpos):
        self.chrom_sizes = tuple(int(c) for c in chrom_sizes)
        self.genpos = tuple(float(g) for g in genpos)
        self.m = sum(self.chrom_sizes)
        assert len(self.genpos) == self.m and all(c >= 1 for c in self.chrom_sizes)
        self.chrom_of = []
        for ci, c in enumerate(self.chrom_sizes):
            self.chrom_of += [ci] * c
        radj = []
        for j in range(self.m):
            if j == 0 or self.chrom_of[j] != self.chrom_of[j - 1]:
                radj.append(0.5)
            else:
                assert self.genpos[j] >= self.genpos[j - 1]
                radj.append(haldane(self.genpos[j] - self.genpos[j - 1]))
        self.radj = tuple(radj)
        self.key = (self.chrom_sizes, self.genpos)

    def pair_r(self, i, j):
        if i == j:
            return 0.0
        if self.chrom_of[i] != self.chrom_of[j]:
            return 0.5
        return haldane(abs(self.genpos[i] - self.genpos[j]))


# ----------------------------------------------------------------------------
# (A) full multi-locus enumeration
class Multilocus:
    _cache = {}

    @classmethod
    def get(cls, layout):
        o = cls._cache.get(layout.key)
        if o is None:
            if len(cls._cache) > 64:
                cls._cache.clear()
            o = cls._cache[layout.key] = cls(layout)
        return o

    def __init__(self, layout):
        self.layout = layout
        m = self.m = layout.m
        H = self.H = 2 ** m
        self.haps = [tuple((h >> (m - 1 - j)) & 1 for j in range(m)) for h in range(H)]
        self.code = {hp: h for h, hp in enumerate(self.haps)}
        self.X = numpy.array(self.haps, dtype=float)          # (H, m) allele of haplotype h at marker j
        # every (start copy, crossover pattern) with its weight
        pats = []
        for flags in itertools.product((0, 1), repeat=m):
            w = 1.0
            for j, f in enumerate(flags):
                w *= layout.radj[j] if f else (1.0 - layout.radj[j])
            copy = 0
            path = []
            for f in flags:
                if f:
                    copy = 1 - copy
                path.append(copy)
            pats.append((w, tuple(path)))
        assert abs(sum(w for w, _ in pats) - 1.0) < 1e-12
        self.npatterns = len(pats)
        K = numpy.zeros((H, H, H))
        for a in range(H):
            ha = self.haps[a]
            for b in range(H):
                hb = self.haps[b]
                pair = (ha, hb)
                for w, path in pats:
                    if w == 0.0:
                        continue
                    g = tuple(pair[path[j]][j] for j in range(m))
                    K[a, b, self.code[g]] += w
        self.K = K
        self._sop = {}

    # exact genotype distributions: P[a,b] = probability that copy 0 is haplotype a and copy 1 is b
    def individual(self, h0, h1):
        P = numpy.zeros((self.H, self.H))
        P[self.code[tuple(int(v) for v in h0)], self.code[tuple(int(v) for v in h1)]] = 1.0
        return P

    def gametes(self, P):
        return numpy.einsum("ab,abg->g", P, self.K)

    def cross(self, PA, PB):
        return numpy.outer(self.gametes(PA), self.gametes(PB))

    def selfed(self, P):
        return numpy.einsum("ab,abg,abh->gh", P, self.K, self.K)

    def het_mass(self, P):
        return float(P.sum() - numpy.trace(P))

    def selfing_operator(self, k):
        """S^k with S[(a,b),(g,h)] = K[a,b,g] K[a,b,h]: the exact k-generation selfing map on genotype
        distributions (one generation = two independent meioses of the same plant).  k = inf: the
        limit, taken as S^128 by repeated squaring (heterozygosity halves every generation)."""
        op = self._sop.get(k)
        if op is None:
            H = self.H
            S = numpy.einsum("abg,abh->abgh", self.K, self.K).reshape(H * H, H * H)
            if k == INF:
                op = S
                for _ in range(7):                  # S^128: heterozygous mass <= m * 2^-128
                    op = op @ op
                    op /= op.sum(1, keepdims=True)  # a stochastic matrix: remove the rounding drift of the row sums
                hetcols = numpy.array([a != b for a in range(H) for b in range(H)])
                assert op[:, hetcols].max() < 1e-15, "selfing chain did not become homozygous"
            else:
                op = numpy.linalg.matrix_power(S, int(k))
            self._sop[k] = op
        return op

    def self_k(self, P, k):
        if k == 0:
            return P
        H = self.H
        return (P.reshape(H * H) @ self.selfing_operator(k)).reshape(H, H)

    def moments(self, g):
        """mean allele vector and covariance matrix of the DH line's alleles."""
        assert abs(g.sum() - 1.0) < 1e-10
        g = g / g.sum()                     # rounding of the weights only; keeps a point mass a point mass
        mean = g @ self.X
        second = (self.X * g[:, None]).T @ self.X
        return mean, second - numpy.outer(mean, mean)


def _pedigree(ops, scheme, parents, nself):
    """parents: list of (h0, h1) per xconfig column.  ops supplies individual/cross/self_k/gametes."""
    ind = [ops.individual(h0, h1) for (h0, h1) in parents]
    if scheme in ("2way", "dihybrid"):
        female, male = ind
        last = ops.cross(female, male)
    elif scheme == "3way":
        recurrent, female, male = ind
        f1 = ops.cross(female, male)
        last = ops.cross(recurrent, f1)
    elif scheme == "4way":
        female2, male2, female1, male1 = ind
        ab = ops.cross(female1, male1)
        cd = ops.cross(female2, male2)
        last = ops.cross(ab, cd)
    else:
        raise KeyError(scheme)
    return ops.gametes(ops.self_k(last, nself))


# ----------------------------------------------------------------------------
# (B) explicit two-locus chain
HAP2 = ((0, 0), (0, 1), (1, 0), (1, 1))
STATES2 = tuple((a, b) for i, a in enumerate(HAP2) for b in HAP2[i:])      # 10 unordered phased genotypes
assert len(STATES2) == 10
SIDX = {s: i for i, s in enumerate(STATES2)}


def _state(a, b):
    return (a, b) if a <= b else (b, a)


def gametes2(state, r):
    """All four (start copy, crossover?) outcomes of one meiosis of a two-locus genotype."""
    out = []
    for start in (0, 1):
        for xo in (0, 1):
            first = state[start][0]
            second = state[start ^ xo][1]
            out.append((0.5 * (r if xo else 1.0 - r), (first, second)))
    return out


class PairOps:
    _tcache = {}
    _pcache = {}

    def __init__(self, r):
        self.r = float(r)

    def individual(self, h0, h1):
        v = numpy.zeros(10)
        v[SIDX[_state(tuple(h0), tuple(h1))]] = 1.0
        return v

    def gametes(self, v):
        g = {}
        for si, p in enumerate(v):
            if p == 0.0:
                continue
            for q, h in gametes2(STATES2[si], self.r):
                g[h] = g.get(h, 0.0) + p * q
        return g

    def cross(self, va, vb):
        ga, gb = self.gametes(va), self.gametes(vb)
        out = numpy.zeros(10)
        for ha, pa in ga.items():
            for hb, pb in gb.items():
                out[SIDX[_state(ha, hb)]] += pa * pb
        return out

    def transition(self):
        T = PairOps._tcache.get(self.r)
        if T is None:
            T = numpy.zeros((10, 10))
            for si, s in enumerate(STATES2):
                gs = gametes2(s, self.r)
                for q1, h1 in gs:
                    for q2, h2 in gs:
                        T[si, SIDX[_state(h1, h2)]] += q1 * q2
            assert numpy.allclose(T.sum(1), 1.0, atol=1e-14)
            if len(PairOps._tcache) > 4096:
                PairOps._tcache.clear()
            PairOps._tcache[self.r] = T
        return T

    def self_k(self, v, k):
        if k == 0:
            return v
        key = (self.r, k)
        Tk = PairOps._pcache.get(key)
        if Tk is None:
            T = self.transition()
            if k == INF:
                Tk = T
                for _ in range(7):                  # T^128
                    Tk = Tk @ Tk
                    Tk /= Tk.sum(1, keepdims=True)
                het = numpy.array([a != b for a, b in STATES2])
                assert Tk[:, het].max() < 1e-15
            else:
                Tk = numpy.linalg.matrix_power(T, int(k))
            if len(PairOps._pcache) > 8192:
                PairOps._pcache.clear()
            PairOps._pcache[key] = Tk
        return v @ Tk


def pair_chain(scheme, parents2, r, nself):
    """parents2: per xconfig column ((x_i,x_j) of copy 0, (x_i,x_j) of copy 1).
    Returns (E x_i, E x_j, cov(x_i, x_j)) of the DH line."""
    g = _pedigree(PairOps(r), scheme, parents2, nself)
    tot = sum(g.values())
    assert abs(tot - 1.0) < 1e-10
    ei = sum(p * h[0] for h, p in g.items()) / tot
    ej = sum(p * h[1] for h, p in g.items()) / tot
    eij = sum(p * h[0] * h[1] for h, p in g.items()) / tot
    return ei, ej, eij - ei * ej


# ----------------------------------------------------------------------------
_moment_cache = {}


def allele_moments(scheme, layout, parents, nself):
    """(mean (m,), cov (m,m)) of the DH line's allele vector; parents = tuple per xconfig column
    of (copy0, copy1) with copies as 0/1 tuples.  Computed by (A), cross-checked by (B)."""
    parents = tuple((tuple(int(v) for v in a), tuple(int(v) for v in b)) for a, b in parents)
    key = (scheme, layout.key, parents, nself)
    hit = _moment_cache.get(key)
    if hit is not None:
        return hit
    assert len(parents) == NPARENT[scheme]
    if scheme != "dihybrid":
        assert all(a == b for a, b in parents), "2/3/4-way schemes are defined for inbred parents"
    ml = Multilocus.get(layout)
    mean, cov = ml.moments(_pedigree(ml, scheme, list(parents), nself))
    m = layout.m
    # (B): pairwise chain (also delivers the diagonal from the pair (i,i), r = 0)
    covB = numpy.zeros((m, m))
    meanB = numpy.zeros(m)
    for i in range(m):
        for j in range(i, m):
            p2 = [((a[i], a[j]), (b[i], b[j])) for a, b in parents]
            ei, ej, c = pair_chain(scheme, p2, layout.pair_r(i, j), nself)
            covB[i, j] = covB[j, i] = c
            if i == j:
                meanB[i] = ei
    if not (numpy.allclose(cov, covB, rtol=0, atol=1e-12) and numpy.allclose(mean, meanB, rtol=0, atol=1e-12)):
        raise AssertionError(f"reference self-check failed: multilocus {cov.tolist()} vs pair chain {covB.tolist()} "
                             f"for {key}")
    if len(_moment_cache) > 200000:
        _moment_cache.clear()
    out = (mean, cov)
    _moment_cache[key] = out
    return out


def progeny_stats(scheme, layout, parents, nself, u):
    """u: (m,t).  Returns dict with mean (t,), cov (t,t) [genetic], gcov (t,t) [genic: cross-locus
    covariances dropped]."""
    u = numpy.asarray(u, dtype=float)
    mean, C = allele_moments(scheme, layout, parents, nself)
    cov = 4.0 * (u.T @ C @ u)
    gcov = 4.0 * (u.T @ numpy.diag(numpy.diag(C)) @ u)
    return {"mean": 2.0 * (mean @ u), "cov": cov, "gcov": gcov}


def selection_intensity(upper_fraction):
    """Mean of the best `upper_fraction` of a standard normal: phi(z)/p with z the (1-p) quantile."""
    p = float(upper_fraction)
    assert 0.0 < p <= 1.0
    if p == 1.0:
        return 0.0
    from statistics import NormalDist
    z = NormalDist().inv_cdf(1.0 - p)
    return math.exp(-0.5 * z * z) / math.sqrt(2.0 * math.pi) / p
