"""Reference model for the four sampling utilities (C17), written from the
property statement and the docstrings, in exact rationals; shares no code with
pybrops.core.random.sampling.

SUS (stochastic universal sampling), the textbook definition: k equally spaced
pointers  (i + u) * D, i = 0..k-1,  D = sum(p)/k,  u uniform on [0,1), laid over
the weights arranged on a line in *some* order.  Whatever the order,
  * exactly k draws,
  * count_i in {floor(e_i), ceil(e_i)},  e_i = k p_i / sum(p),
  * E_u[count_i] = e_i,
  * p_i = 0  =>  count_i = 0.
The outcome, as a function of u, can only change where a pointer crosses the end
of an element, i.e. at u = frac(S / D) for a partial sum S of the arrangement.
Every partial sum of every arrangement is a subset sum, so the partition of [0,1)
by frac(S/D) over *all* subset sums refines the outcome classes of any
arrangement: one representative per cell of that partition, weighted by the
cell's exact length, gives the exact distribution of the counts without knowing
(or assuming) the order the implementation uses.
"""
from __future__ import annotations
from fractions import Fraction
import itertools
import math

TWO53 = 2 ** 53
EXTREME_J = (0, 1, 2, 2 ** 51, 2 ** 52, 3 * 2 ** 51, TWO53 - 2, TWO53 - 1)
THIN = Fraction(1, 2 ** 40)          # cells narrower than this get no representative (accounted as slack)


def expected_counts(p, k):
    P = [Fraction(float(x)) for x in p]
    tot = sum(P)
    return [k * x / tot for x in P]


def allowed_range(e, k):
    """Inclusive integer range for a count whose exact expectation is e.
    Exactly integral e -> that integer only.  Otherwise floor..ceil; an expectation that is
    within 1e-12*k of an integer *without being one* (the weights themselves are rounded
    doubles) gets that neighbour too (the 1e-12*scale slack for inequalities)."""
    if e.denominator == 1:
        return int(e), int(e)
    slack = Fraction(k, 10 ** 12)
    return math.floor(e - slack), math.ceil(e + slack)


def sus_offset_menu(p, k):
    """Answers for the offset draw uniform(0, D) as grid indices j (the draw is 0 + D*(j/2^53)):
    list of (j, weight, kind, edge); kind in {'class','extreme','boundary'}; edge = zero-weight answer within
    2 grid steps of a cell boundary.
    First entry is a positive-weight class representative.  Returns (menu, thin_weight)."""
    P = [Fraction(float(x)) for x in p]
    tot = sum(P)
    D = tot / k
    pos = [x for x in P if x > 0]
    sums = {Fraction(0)}
    for x in pos:
        sums |= {s + x for s in sums}
    fr = set()
    for s in sums:
        q = s / D
        fr.add(q - math.floor(q))
    cuts = sorted(fr)                         # contains 0 (the empty sum)
    cells = list(zip(cuts, cuts[1:] + [Fraction(1)]))
    menu, thin = [], Fraction(0)
    for lo, hi in cells:
        w = hi - lo
        if w < THIN:
            thin += w
            continue
        j = round((lo + hi) / 2 * TWO53)
        assert lo < Fraction(j, TWO53) < hi
        menu.append((int(j), w, "class"))
    # widest class first = the default answer of the explorer
    menu.sort(key=lambda e: (-e[1], e[0]))
    seen = {e[0] for e in menu}
    extra = []
    for j in EXTREME_J:
        extra.append((j, "extreme"))
    cutj = [round(f * TWO53) for f in cuts] + [TWO53]
    for j0 in cutj[:-1]:
        for dj in (-1, 0, 1):
            extra.append((j0 + dj, "boundary"))
    for j, kind in extra:
        if 0 <= j < TWO53 and j not in seen:
            seen.add(j)
            menu.append((int(j), Fraction(0), kind))
    # 'edge' answers: within 2 grid steps (2*2^-53) of a cell boundary (u = 0 and u -> 1 included): there a pointer sits
    # on, or within rounding of, the end of an element; 'interior' answers are everything else
    menu = [(j, w, kind, w == 0 and min(abs(j - c) for c in cutj) <= 2) for (j, w, kind) in menu]
    assert sum(e[1] for e in menu) + thin == 1
    return menu, thin


# ----------------------------------------------------------------------------
def dup_count(table):
    """Number of repeated individuals within crosses: sum over rows of (len - distinct)."""
    return sum(len(r) - len(set(r)) for r in table)


def improving_exchanges(table):
    """All single exchanges of two entries (flat positions i<j) that reduce dup_count."""
    rows = [list(r) for r in table]
    nc = len(rows[0]) if rows else 0
    flat = [v for r in rows for v in r]
    base = dup_count(rows)
    out = []
    for i, j in itertools.combinations(range(len(flat)), 2):
        f = list(flat)
        f[i], f[j] = f[j], f[i]
        t = [f[r * nc:(r + 1) * nc] for r in range(len(rows))]
        if dup_count(t) < base:
            out.append((i, j))
    return out


# ----------------------------------------------------------------------------
def requested_slices(shape, axes):
    """The slices an axis shuffle over `axes` is asked to shuffle: one per index combination
    along `axes`, everything else free.  Yields index tuples usable on a nested list / ndarray."""
    axes = tuple(axes)
    rng = [range(shape[d]) if d in axes else [slice(None)] for d in range(len(shape))]
    for ix in itertools.product(*rng):
        yield tuple(ix)
