"""Fixtures, the alphabet of stochastic API calls (programs are sequences of these) and the recipes for the
isolation half of C08 (one recipe per component that accepts an `rng` argument).

Everything here is deterministic and draws no random numbers itself; all values are fixed small arrays rotated by
the value-alphabet variant v = VERIF_SEED % 3.
"""
from __future__ import annotations
import importlib, inspect, pkgutil

import numpy

from .. import compat  # noqa: F401

V_Q = (0.25, 0.375, 0.1)                # the non-0.5 crossover probability
V_BIG = (0x9E3779B97F4A7C15, 0xD1B54A32D192ED03, 0x0123456789ABCDEF)   # the 64-bit seed
V_EXPL = (7, 8, 9)                      # seed of the caller's explicit generator


def seeds(v):
    return [0, 1, 2 ** 32 - 1, V_BIG[v % 3]]


# ----------------------------------------------------------------------------
class Fx:
    """Lazily built fixtures for one execution (never shared between executions)."""

    def __init__(self, v):
        self.v = v % 3
        self._c = {}
        self._snap = {}

    def _get(self, key, fn):
        if key not in self._c:
            self._c[key] = fn()
            self._snap[key] = arrays_digest(self._c[key])
        return self._c[key]

    def arr(self, name, fn):
        """An input array owned by the fixture (snapshotted when created; see verify)."""
        return self._get(("arr", name), fn)

    def own(self, name, obj):
        """Register an object built by a call (e.g. a configuration) so that its array attributes are watched too."""
        key = ("obj", name, len(self._c))
        self._c[key] = obj
        self._snap[key] = arrays_digest(obj)
        return obj

    def verify(self):
        """Names of fixture arrays / array attributes of fixture objects whose content differs from the snapshot taken
        when they were created (inputs must be left untouched by every stochastic call)."""
        bad = []
        seen = set()                         # one report per array object (a configuration holds the fixture array)
        for key in sorted(self._c, key=lambda k: (k[0] != "arr", str(k))):
            val = self._c[key]
            now = arrays_digest(val)
            was = self._snap[key]
            if now != was:
                for f in sorted(set(now) | set(was)):
                    if now.get(f) != was.get(f):
                        arr = val if f == "" else getattr(val, "__dict__", {}).get("_" + f, getattr(val, "__dict__", {}).get(f))
                        if id(arr) in seen:
                            continue
                        seen.add(id(arr))
                        bad.append(f"{_keyname(key)}{'.' + f if f else ''}")
        return bad

    # -- genomes ---------------------------------------------------------------
    def pg(self, n=4, lay=(2, 2)):
        def build():
            from pybrops.popgen.gmat.DensePhasedGenotypeMatrix import DensePhasedGenotypeMatrix
            m = sum(lay)
            v = self.v
            mat = numpy.array([[[((p * 3 + t * 5 + j * (t + 2) + (t * j) // 2 + v) % 3) % 2 for j in range(m)]
                                for t in range(n)] for p in range(2)], dtype="int8")
            q = V_Q[v]
            xo = numpy.array(([0.5, q, 0.1, 0.5, 0.3, q] * 2)[:m], dtype=float)
            pg = DensePhasedGenotypeMatrix(
                mat=mat,
                taxa=numpy.array([f"T{t}" for t in range(n)], dtype=object),
                taxa_grp=numpy.repeat(numpy.arange((n + 1) // 2), 2)[:n].astype("int64"),
                vrnt_chrgrp=numpy.repeat(numpy.arange(1, len(lay) + 1), lay).astype("int64"),
                vrnt_phypos=numpy.concatenate([numpy.arange(1, c + 1) * 10 for c in lay]).astype("int64"),
                vrnt_name=numpy.array([f"m{j}" for j in range(m)], dtype=object),
                vrnt_genpos=numpy.concatenate([numpy.arange(c) * 0.3 for c in lay]).astype(float),
                vrnt_xoprob=xo,
                vrnt_hapgrp=numpy.arange(m, dtype="int64"),
                vrnt_mask=numpy.ones(m, dtype=bool),
            )
            pg.group_vrnt()
            pg.group_taxa()
            return pg
        return self._get(("pg", n, lay), build)

    def gm(self, m=4):
        def build():
            from pybrops.model.gmod.DenseAdditiveLinearGenomicModel import DenseAdditiveLinearGenomicModel
            base = numpy.array([[0.5, -1.0], [1.5, 0.25], [-0.75, 1.0], [0.125, 2.0], [1.0, -0.5], [-0.25, 0.75]])
            u = numpy.roll(base, self.v, axis=0)[:m]
            return DenseAdditiveLinearGenomicModel(beta=numpy.array([[1.0, 2.0]]), u_misc=None, u_a=u,
                                                   trait=numpy.array(["y1", "y2"], dtype=object), model_name="g",
                                                   hyperparams=None)
        return self._get(("gm", m), build)

    def gmat(self, n, lay):
        def build():
            from pybrops.popgen.gmat.DenseGenotypeMatrix import DenseGenotypeMatrix
            pg = self.pg(n, lay)
            g = DenseGenotypeMatrix(mat=pg.mat.sum(0).astype("int8"), taxa=pg.taxa, taxa_grp=pg.taxa_grp,
                                    vrnt_chrgrp=pg.vrnt_chrgrp, vrnt_phypos=pg.vrnt_phypos, vrnt_name=pg.vrnt_name,
                                    vrnt_genpos=pg.vrnt_genpos, vrnt_xoprob=pg.vrnt_xoprob, vrnt_hapgrp=pg.vrnt_hapgrp,
                                    vrnt_mask=pg.vrnt_mask, ploidy=2)
            g.group_vrnt()
            g.group_taxa()
            return g
        return self._get(("gmat", n, lay), build)

    def ptdf(self, n):
        def build():
            import pandas
            vals = numpy.array([[((i * 7 + self.v) % 5) * 0.5 + 0.1 * i, ((i * 3) % 7) * 0.25 - 0.5] for i in range(n)])
            pg = self.pg(n, (3, 3))
            return pandas.DataFrame({"taxa": pg.taxa, "taxa_grp": pg.taxa_grp, "env": numpy.repeat(1, n),
                                     "rep": numpy.repeat(1, n), "y1": vals[:, 0], "y2": vals[:, 1]})
        return self._get(("ptdf", n), build)

    # -- optimisation problems ---------------------------------------------------
    def ebv(self, n):
        return numpy.array([[((i * 7 + self.v) % 5) * 0.5 + 0.1 * i, ((i * 3) % 7) * 0.25] for i in range(n)])

    def prob(self, enc, nobj, n=10, k=3):
        def build():
            mod = importlib.import_module("pybrops.breed.prot.sel.prob.EstimatedBreedingValueSelectionProblem")
            cls = getattr(mod, f"EstimatedBreedingValue{enc}SelectionProblem")
            ebv = self.ebv(n)
            if enc == "Subset":
                ndecn, lo, hi = k, numpy.repeat(0, k), numpy.repeat(n - 1, k)
                space = numpy.arange(n)
            elif enc == "Binary":
                ndecn, lo, hi = n, numpy.repeat(0, n), numpy.repeat(1, n)
                space = numpy.stack([lo, hi])
            elif enc == "Integer":
                ndecn, lo, hi = n, numpy.repeat(0, n), numpy.repeat(k, n)
                space = numpy.stack([lo, hi])
            else:
                ndecn, lo, hi = n, numpy.repeat(0.0, n), numpy.repeat(1.0, n)
                space = numpy.stack([lo, hi])
            return cls(ebv=ebv, ndecn=ndecn, decn_space=space, decn_space_lower=lo, decn_space_upper=hi,
                       nobj=nobj, obj_wt=numpy.array([-1.0] * nobj),
                       obj_trans=_first_latent if nobj == 1 else None)
        return self._get(("prob", enc, nobj, n, k), build)


OUTPUT_ATTRS = {"_xconfig"}          # attributes a stochastic call is supposed to overwrite


def _adig(a):
    if a.dtype == object:
        return ("o", a.shape, tuple(repr(x) for x in a.ravel().tolist()))
    return (a.dtype.str, a.shape, numpy.ascontiguousarray(a).tobytes())


def arrays_digest(x):
    """{attribute name: bit-exact digest} of an ndarray ('' key) or of every ndarray attribute of an object."""
    if isinstance(x, numpy.ndarray):
        return {"": _adig(x)}
    out = {}
    d = getattr(x, "__dict__", None)
    if d:
        for k in sorted(d):
            if isinstance(d[k], numpy.ndarray) and k not in OUTPUT_ATTRS:
                out[k.lstrip("_")] = _adig(d[k])
    return out


def _keyname(key):
    if key[0] == "arr":
        k = key[1]
        if isinstance(k, tuple):          # ("xconfig_decn", enc, mate, tiling case)
            k = f"{k[0]}[{k[1]}{'Mate' if k[2] else ''},{k[3]}]"
        return f"input-array({k})"
    if key[0] == "obj":
        return str(key[1])
    return str(key[0])


def _first_latent(x, latent, **kw):
    return latent[:1]


def _objfn1(x):
    # deterministic score of a subset for the legacy `optimize(objfn, k, sspace, objfn_wt)` optimisers
    x = numpy.asarray(x)
    return float(((x * 7) % 5).sum() + 0.1 * x.sum())


def _objfn2(x):
    x = numpy.asarray(x)
    return (float(((x * 7) % 5).sum()), float(((x * 3) % 7).sum()))


# ----------------------------------------------------------------------------
# generic helpers used by both halves
MATE = {"TwoWayCross": 2, "TwoWayDHCross": 2, "ThreeWayCross": 3, "ThreeWayDHCross": 3, "FourWayCross": 4,
        "FourWayDHCross": 4, "SelfCross": 1}


def mate_cls(name):
    return getattr(importlib.import_module(f"pybrops.breed.prot.mate.{name}"), name)


def mate_xconfig(k):
    return numpy.array([[(i + j) % 4 for j in range(k)] for i in range(2)], dtype="int64")


def do_mate(fx, prot, name):
    out = prot.mate(fx.pg(), mate_xconfig(MATE[name]), 1, 2, nself=1)   # every protocol runs its selfing loop (it draws too)
    return (out.mat, out.taxa, out.taxa_grp)


def mk_pheno(fx, rng=None):
    from pybrops.breed.prot.pt.G_E_Phenotyping import G_E_Phenotyping
    return G_E_Phenotyping(fx.gm(4), nenv=2, nrep=numpy.array([2, 1]), var_env=0.5, var_rep=0.25, var_err=1.0, rng=rng)


# decision vectors for the sampled configurations, in three tiling cases of ncross*nparent (= 4; mate: ncross = 2)
# against len(xconfig_decn): "exact" (one complete set, no remainder), "multiple" (two complete sets), "ragged"
TILING = ("exact", "multiple", "ragged")
CFG_DECN = {
    "Subset": {"exact": [0, 1, 3, 2], "multiple": [3, 1], "ragged": [0, 1, 3]},
    "Real": {"exact": [0.1, 0.4, 0.3, 0.2], "multiple": [0.25, 0.75], "ragged": [0.2, 0.5, 0.3]},
    "Integer": {"exact": [1, 0, 2, 1], "multiple": [1, 1, 0, 0], "ragged": [2, 0, 1, 0]},
    "Binary": {"exact": [1, 1, 1, 1], "multiple": [1, 0, 1, 0], "ragged": [1, 0, 1, 1]},
}
XMAP = numpy.array([[0, 1], [0, 2], [1, 3], [2, 3]], dtype="int64")
CFG_MATE_DECN = {
    "Subset": {"exact": [0, 2], "multiple": [3], "ragged": [0, 2, 3]},
    "Real": {"exact": [0.1, 0.4, 0.3, 0.2], "multiple": [0.0, 0.5, 0.5, 0.0], "ragged": [0.2, 0.5, 0.3, 0.0]},
    "Integer": {"exact": [1, 0, 1, 0], "multiple": [0, 1, 0, 0], "ragged": [1, 0, 2, 0]},
    "Binary": {"exact": [1, 0, 1, 0], "multiple": [0, 0, 1, 0], "ragged": [1, 0, 1, 1]},
}


def _decn(fx, enc, mate, case):
    tab = (CFG_MATE_DECN if mate else CFG_DECN)[enc][case]
    dt = float if enc == "Real" else "int64"
    return fx.arr(("xconfig_decn", enc, mate, case), lambda: numpy.array(tab, dtype=dt))


def mk_cfg(fx, enc, rng=None, mate=False, case="ragged"):
    """Constructing a sampled configuration already draws (the constructor samples the first xconfig).  The decision
    vector is a fixture array (watched by Fx.verify)."""
    decn = _decn(fx, enc, mate, case)
    if mate:
        cls = getattr(importlib.import_module(f"pybrops.breed.prot.sel.cfg.{enc}MateSelectionConfiguration"),
                      f"{enc}MateSelectionConfiguration")
        return fx.own(cls.__name__, cls(2, 2, 1, 2, fx.pg(), decn, fx.arr("xmap", lambda: XMAP.copy()), rng))
    cls = getattr(importlib.import_module(f"pybrops.breed.prot.sel.cfg.{enc}SelectionConfiguration"),
                  f"{enc}SelectionConfiguration")
    return fx.own(cls.__name__, cls(2, 2, 1, 2, fx.pg(), decn, rng))


def mk_cfgs(fx, enc, rng=None, mate=False):
    """One configuration per tiling case."""
    return [mk_cfg(fx, enc, rng, mate, case) for case in TILING]


def use_cfgs(fx, cfgs):
    """(xconfig sampled by the constructor, a second sample) per configuration."""
    return tuple((numpy.array(c.xconfig), numpy.array(c.sample_xconfig(True))) for c in cfgs)


def resample_cfgs(fx, cfgs):
    """Two fresh samples per configuration: after re-seeding they consume the stream exactly like construction +
    one sample did, so they must reproduce use_cfgs(mk_cfgs(...)) bit for bit."""
    first = [numpy.array(c.sample_xconfig(True)) for c in cfgs]          # same draw order as mk_cfgs + use_cfgs
    second = [numpy.array(c.sample_xconfig(True)) for c in cfgs]
    return tuple(zip(first, second))


def do_cfg(fx, enc, rng=None, mate=False):
    return use_cfgs(fx, mk_cfgs(fx, enc, rng, mate))


PYMOO_ALGOS = {
    # name -> (module, encoding, nobj)
    "SubsetGeneticAlgorithm": ("SubsetGeneticAlgorithm", "Subset", 1),
    "NSGA2SubsetGeneticAlgorithm": ("NSGA2SubsetGeneticAlgorithm", "Subset", 2),
    "NSGA3SubsetGeneticAlgorithm": ("NSGA3SubsetGeneticAlgorithm", "Subset", 2),
    "RealGeneticAlgorithm": ("RealGeneticAlgorithm", "Real", 1),
    "NSGA2RealGeneticAlgorithm": ("NSGA2RealGeneticAlgorithm", "Real", 2),
    "IntegerGeneticAlgorithm": ("IntegerGeneticAlgorithm", "Integer", 1),
    "NSGA2IntegerGeneticAlgorithm": ("NSGA2IntegerGeneticAlgorithm", "Integer", 2),
    "BinaryGeneticAlgorithm": ("BinaryGeneticAlgorithm", "Binary", 1),
    "NSGA2BinaryGeneticAlgorithm": ("NSGA2BinaryGeneticAlgorithm", "Binary", 2),
    "NSGA2SteepestDescentSubsetGeneticAlgorithm": ("NSGA2MemeticSubsetGeneticAlgorithm", "Subset", 2),
    "NSGA2StochasticDescentSubsetGeneticAlgorithm": ("NSGA2MemeticSubsetGeneticAlgorithm", "Subset", 2),
    "NSGA2MutatorASubsetGeneticAlgorithm": ("NSGA2MemeticSubsetGeneticAlgorithm", "Subset", 2),
    "NSGA2MutatorBSubsetGeneticAlgorithm": ("NSGA2MemeticSubsetGeneticAlgorithm", "Subset", 2),
}


def algo_cls(name):
    return getattr(importlib.import_module(f"pybrops.opt.algo.{PYMOO_ALGOS[name][0]}"), name)


def mk_algo(name, rng=None, ngen=2, pop=4):
    cls = algo_cls(name)
    kw = {}
    if "rng" in inspect.signature(cls.__init__).parameters and rng is not None:
        kw["rng"] = rng
    return cls(ngen=ngen, pop_size=pop, **kw)


def do_minimize(fx, algo, enc, nobj):
    s = algo.minimize(fx.prob(enc, nobj))
    return (s.soln_decn, s.soln_obj, s.soln_ineqcv, s.soln_eqcv)


SEL_ALGO = {"Subset": ("SubsetGeneticAlgorithm", "NSGA2SubsetGeneticAlgorithm"),
            "Real": ("RealGeneticAlgorithm", "NSGA2RealGeneticAlgorithm"),
            "Integer": ("IntegerGeneticAlgorithm", "NSGA2IntegerGeneticAlgorithm"),
            "Binary": ("BinaryGeneticAlgorithm", "NSGA2BinaryGeneticAlgorithm")}
SEL_N, SEL_LAY = 8, (3, 3)


def sel_encoding(clsname):
    return next((e for e in SEL_ALGO if clsname.endswith(e + "Selection")), None)


def mk_selprot(fx, cls, nobj, rng=None):
    """Generic constructor for the (Subset|Real|Integer|Binary)Selection protocol classes."""
    ps = inspect.signature(cls.__init__).parameters
    m = sum(SEL_LAY)
    extras = dict(ntrait=2, unscale=True, nrep=1, unique_parents=True, alpha=0.5, nhaploblk=2, nbestfndr=2, nself=0,
                  upper_percentile=0.1)
    kw = {k: v for k, v in extras.items() if k in ps}
    if "mateprot" in ps:
        kw["mateprot"] = mate_cls("TwoWayDHCross")(rng=rng)
    if "cmatfcty" in ps:
        from pybrops.popgen.cmat.fcty.DenseMolecularCoancestryMatrixFactory import DenseMolecularCoancestryMatrixFactory
        kw["cmatfcty"] = DenseMolecularCoancestryMatrixFactory()
    if "vmatfcty" in ps:
        from pybrops.model.vmat.fcty.DenseTwoWayDHAdditiveGeneticVarianceMatrixFactory import \
            DenseTwoWayDHAdditiveGeneticVarianceMatrixFactory
        kw["vmatfcty"] = DenseTwoWayDHAdditiveGeneticVarianceMatrixFactory()
    if "gmapfn" in ps:
        from pybrops.popgen.gmap.HaldaneMapFunction import HaldaneMapFunction
        kw["gmapfn"] = HaldaneMapFunction()
    if "weight" in ps:
        kw["weight"] = numpy.ones((m, 2))
        kw["target"] = numpy.ones((m, 2))
    enc = sel_encoding(cls.__name__)
    so, mo = SEL_ALGO[enc]
    return cls(ncross=2, nparent=2, nmating=1, nprogeny=2, nobj=nobj, obj_trans=(_first_latent if nobj == 1 else None),
               rng=rng, soalgo=mk_algo(so, rng), moalgo=mk_algo(mo, rng), **kw)


def do_select(fx, prot):
    pg = fx.pg(SEL_N, SEL_LAY)
    gm = fx.gm(sum(SEL_LAY))
    bv = fx._get("bvmat", lambda: gm.gebv(pg))
    cfg = prot.select(pg, fx.gmat(SEL_N, SEL_LAY), fx.ptdf(SEL_N), bv, gm, 0, 5)
    return (cfg.xconfig, cfg.xconfig_decn)


def do_sus(fx, f, rng):
    a = fx.arr("sus.a", lambda: numpy.arange(5))
    p = fx.arr("sus.p", lambda: numpy.array([0.1, 0.4, 0.3, 0.15, 0.05]))
    return f(a, p, (2, 3), rng)


def do_tiled(fx, f, rng):
    """Sampling without replacement in the three tiling cases (size == len(a): one complete set and no remainder;
    2 len(a); a ragged size), as 1-D and 2-D shapes, and with replacement; then with the optional weights p."""
    a = fx.arr("tiled.a", lambda: numpy.array([3, 0, 2, 1]))
    p = fx.arr("tiled.p", lambda: numpy.array([0.375, 0.125, 0.25, 0.25]))     # the optional weights, both replace modes
    return (f(a, 4, False, None, rng), f(a, (2, 2), False, None, rng), f(a, 8, False, None, rng),
            f(a, 6, False, None, rng), f(a, (2, 2), True, None, rng),
            f(a, 6, False, p, rng), f(a, 4, False, p, rng), f(a, (3, 2), True, p, rng))


def mk_cmat(fx):
    from pybrops.popgen.cmat.DenseMolecularCoancestryMatrix import DenseMolecularCoancestryMatrix
    a = 2.0 + fx.v
    return DenseMolecularCoancestryMatrix(mat=numpy.array([[1.0, a, 0.0], [a, 1.0, 0.0], [0.0, 0.0, 1.0]]),
                                         taxa=numpy.array(["a", "b", "c"], dtype=object))


# ----------------------------------------------------------------------------
class Call:
    """One letter of the program alphabet.  make(fx) builds the (persistable) object that owns the stochastic
    method — or None; use(fx, obj) performs the stochastic call(s) with the library's *global* generator and returns
    the outputs.  `site` names the library entry point for signatures.

    For the repeat-after-re-seeding runs: round1(fx) -> (output, kept object) performs the call like use() on a freshly
    made object; round2(fx, kept) performs the SAME stochastic call again on the same fixtures and — unless the object
    carries a deterministic counter that legitimately changes its labels (reuse=False: mating protocols) — on the same
    object.  `first`/`again` override the two rounds (configurations: construction samples, so round 2 re-samples)."""

    def __init__(self, name, site, use, make=None, tier="core", reuse=True, first=None, again=None):
        self.name, self.site, self._use, self._make, self.tier = name, site, use, make, tier
        self.reuse, self._first, self._again = reuse, first, again

    @property
    def persistent(self):
        return self._make is not None

    def make(self, fx):
        return self._make(fx) if self._make else None

    def use(self, fx, obj):
        return self._use(fx, obj)

    def round1(self, fx):
        if self._first:
            return self._first(fx)
        o = self.make(fx)
        return self.use(fx, o), o

    def round2(self, fx, kept):
        if self._again:
            return self._again(fx, kept)
        return self.use(fx, kept if (self.reuse and kept is not None) else self.make(fx))


def _alphabet():
    from pybrops.core.random import prng
    from pybrops.core.random import sampling
    A = []

    def add(*a, **k):
        A.append(Call(*a, **k))

    # ---- core --------------------------------------------------------------
    add("mate2", "TwoWayCross.mate", lambda fx, o: do_mate(fx, o, "TwoWayCross"), lambda fx: mate_cls("TwoWayCross")(),
        reuse=False)
    add("pheno", "G_E_Phenotyping.phenotype", lambda fx, o: o.phenotype(fx.pg()), lambda fx: mk_pheno(fx))
    add("cfg_subset", "SubsetSelectionConfiguration.sample_xconfig", lambda fx, o: do_cfg(fx, "Subset", None, False),
        first=lambda fx: (lambda cs: (use_cfgs(fx, cs), cs))(mk_cfgs(fx, "Subset", None, False)), again=resample_cfgs)
    add("cfg_real", "RealSelectionConfiguration.sample_xconfig", lambda fx, o: do_cfg(fx, "Real", None, False),
        first=lambda fx: (lambda cs: (use_cfgs(fx, cs), cs))(mk_cfgs(fx, "Real", None, False)), again=resample_cfgs)

    def spawn1(fx, o):
        g = prng.spawn()
        h = prng.spawn(1)
        return (g.random(2), g.integers(0, 1 << 40, 2), h[0].standard_normal(2), len(h))

    def spawn2(fx, o):
        gs = prng.spawn(2, sbits=32 if fx.v == 1 else 64)
        return tuple(g.uniform(0, 1, 2) for g in gs) + (gs[1].permutation(5),)
    add("spawn1", "prng.spawn", spawn1)
    add("spawn2", "prng.spawn", spawn2)
    add("sus", "stochastic_universal_sampling", lambda fx, o: do_sus(fx, sampling.stochastic_universal_sampling, None))
    add("tiled", "tiled_choice", lambda fx, o: do_tiled(fx, sampling.tiled_choice, None))

    def shuffles(fx, o):
        a = numpy.arange(12).reshape(3, 4)
        sampling.axis_shuffle(a, 1)
        x = numpy.array([[0, 0], [1, 1], [2, 3]])
        sampling.outcross_shuffle(x)
        return (a, x)
    add("shuffles", "axis_shuffle/outcross_shuffle", shuffles)
    add("ga_subset", "SubsetGeneticAlgorithm.minimize", lambda fx, o: do_minimize(fx, o, "Subset", 1),
        lambda fx: mk_algo("SubsetGeneticAlgorithm"))
    add("nsga2_subset", "NSGA2SubsetGeneticAlgorithm.minimize", lambda fx, o: do_minimize(fx, o, "Subset", 2),
        lambda fx: mk_algo("NSGA2SubsetGeneticAlgorithm"))

    def mk_hill(fx):
        from pybrops.opt.algo.SteepestDescentSubsetHillClimber import SteepestDescentSubsetHillClimber
        return SteepestDescentSubsetHillClimber()
    add("hill", "SteepestDescentSubsetHillClimber.minimize", lambda fx, o: do_minimize(fx, o, "Subset", 1), mk_hill)

    def jitter(fx, o):
        c = mk_cmat(fx)
        ok = c.apply_jitter(nattempt=3)
        return (bool(ok), c.mat)
    add("jitter", "DenseCoancestryMatrix.apply_jitter", jitter)

    def embv(fx, o):
        from pybrops.model.embvmat.DenseExpectedMaximumBreedingValueMatrix import DenseExpectedMaximumBreedingValueMatrix
        out = DenseExpectedMaximumBreedingValueMatrix.from_gmod(fx.gm(4), fx.pg(), 2, 2)
        return (out.mat, out.location, out.scale)
    add("embv", "DenseExpectedMaximumBreedingValueMatrix.from_gmod", embv)

    def mk_sel(enc):
        def mk(fx):
            mod = importlib.import_module("pybrops.breed.prot.sel.EstimatedBreedingValueSelection")
            return mk_selprot(fx, getattr(mod, f"EstimatedBreedingValue{enc}Selection"), 1)
        return mk
    add("select_subset", "SubsetSelectionProtocol.select", lambda fx, o: do_select(fx, o), mk_sel("Subset"))

    def wrappers(fx, o):
        return (prng.uniform(0, 1, 2), prng.normal(), prng.choice(5, 2), prng.permutation(4), prng.random(),
                prng.binomial(5, 0.5), prng.standard_normal(3))
    add("prng_wrappers", "prng.<wrappers>", wrappers)

    # ---- extended (thorough tier, programs of length <= 2) ---------------------
    for nm in ("TwoWayDHCross", "ThreeWayCross", "ThreeWayDHCross", "FourWayCross", "FourWayDHCross", "SelfCross"):
        add("mate:" + nm, nm + ".mate", (lambda n_: lambda fx, o: do_mate(fx, o, n_))(nm),
            (lambda n_: lambda fx: mate_cls(n_)())(nm), tier="ext", reuse=False)
    add("cfg_integer", "IntegerSelectionConfiguration.sample_xconfig", lambda fx, o: do_cfg(fx, "Integer", None, False),
        first=lambda fx: (lambda cs: (use_cfgs(fx, cs), cs))(mk_cfgs(fx, "Integer", None, False)), again=resample_cfgs, tier="ext")
    add("cfg_binary", "BinarySelectionConfiguration.sample_xconfig", lambda fx, o: do_cfg(fx, "Binary", None, False),
        first=lambda fx: (lambda cs: (use_cfgs(fx, cs), cs))(mk_cfgs(fx, "Binary", None, False)), again=resample_cfgs, tier="ext")
    for enc in ("Subset", "Real", "Integer", "Binary"):
        add("cfgmate_" + enc.lower(), f"{enc}MateSelectionConfiguration.sample_xconfig",
            (lambda e: lambda fx, o: do_cfg(fx, e, None, True))(enc),
            first=(lambda e: lambda fx: (lambda cs: (use_cfgs(fx, cs), cs))(mk_cfgs(fx, e, None, True)))(enc),
            again=resample_cfgs, tier="ext")
    for nm, (_, enc, nobj) in PYMOO_ALGOS.items():
        if nm in ("SubsetGeneticAlgorithm", "NSGA2SubsetGeneticAlgorithm"):
            continue
        add("algo:" + nm, nm + ".minimize", (lambda e, k: lambda fx, o: do_minimize(fx, o, e, k))(enc, nobj),
            (lambda n_: lambda fx: mk_algo(n_))(nm), tier="ext")
    for enc in ("Real", "Integer", "Binary"):
        add("select_" + enc.lower(), f"{enc}SelectionProtocol.select", lambda fx, o: do_select(fx, o), mk_sel(enc), tier="ext")

    def legacy(nm, multi):
        def mk(fx):
            cls = getattr(importlib.import_module(f"pybrops.opt.algo.{nm}"), nm)
            return cls(ngen=3, mu=4, lamb=4) if "Genetic" in nm else cls()

        def use(fx, o):
            r = o.optimize(_objfn2 if multi else _objfn1, 3, numpy.arange(10),
                           numpy.array([1.0, 1.0]) if multi else numpy.array([1.0]))
            return (numpy.asarray(r[0], dtype=float), numpy.asarray(r[1]))
        return mk, use
    for nm, multi in (("UnconstrainedSteepestAscentSetHillClimber", False), ("UnconstrainedSetGeneticAlgorithm", False),
                      ("UnconstrainedNSGA2SetGeneticAlgorithm", True)):
        mk, use = legacy(nm, multi)
        add("legacy:" + nm, nm + ".optimize", use, mk, tier="ext")

    def rsel(fx, o):
        mod = importlib.import_module("pybrops.breed.prot.sel.RandomSelection")
        p = mk_selprot(fx, mod.RandomSubsetSelection, 1)
        pg = fx.pg(SEL_N, SEL_LAY)
        pr = p.problem(pg, fx.gmat(SEL_N, SEL_LAY), fx.ptdf(SEL_N), None, fx.gm(sum(SEL_LAY)), 0, 5)
        return (pr.rbv,)
    add("random_problem", "RandomSubsetSelectionProblem.from_*", rsel, tier="ext")
    return A


_ALPHA = None


def alphabet():
    global _ALPHA
    if _ALPHA is None:
        _ALPHA = _alphabet()
        assert len({c.name for c in _ALPHA}) == len(_ALPHA)
    return _ALPHA


def call_by_name(name):
    return next(c for c in alphabet() if c.name == name)


# ----------------------------------------------------------------------------
# pollution prefixes: direct manipulations of the two global streams (library calls are added by the check)
def direct_pollutions(s):
    import random
    from pybrops.core.random import prng

    def np_set_state():
        r = numpy.random.RandomState(99)
        r.standard_normal()                       # leaves a cached gaussian in the state
        numpy.random.set_state(r.get_state())

    return [
        ("py.random*3", lambda: [random.random() for _ in range(3)]),
        ("py.gauss", lambda: random.gauss(0.0, 1.0)),                 # leaves gauss_next cached
        ("np.random*5", lambda: numpy.random.random(5)),
        ("np.normal*1", lambda: numpy.random.standard_normal()),      # leaves has_gauss = 1
        ("np.seed(12345)", lambda: numpy.random.seed(12345)),
        ("py.seed(54321)", lambda: random.seed(54321)),
        ("prng.seed(other)", lambda: prng.seed((s + 1) % (1 << 64))),
        ("prng.seed(None)", lambda: prng.seed(None)),
        ("default_rng()", lambda: numpy.random.default_rng().random(3)),
        ("np.set_state", np_set_state),
        ("py.setstate", lambda: random.setstate(random.Random(5).getstate())),
        ("prng.spawn(3)", lambda: [g.random() for g in prng.spawn(3)]),
    ]


# ----------------------------------------------------------------------------
# isolation half: discovery + recipes
def discover():
    """Every concrete class whose own __init__ takes `rng`, every method / function with an `rng` parameter, in all of
    pybrops (sorted full names).  Returns (names, import_failures)."""
    import pybrops
    mods, bad = [], []

    def walk(path, prefix):
        for m in sorted(pkgutil.iter_modules(path), key=lambda m: m.name):
            name = prefix + m.name
            try:
                mod = importlib.import_module(name)
            except Exception as e:       # e.g. pybrops.model.pmebvmat (MRO error on this tree)
                bad.append(f"{name}:{type(e).__name__}")
                continue
            mods.append(mod)
            if m.ispkg:
                walk(mod.__path__, name + ".")
    walk(pybrops.__path__, "pybrops.")
    out = {}
    for mod in mods:
        for n, o in sorted(vars(mod).items()):
            if getattr(o, "__module__", None) != mod.__name__:
                continue
            if inspect.isclass(o):
                if "__init__" in vars(o) and not inspect.isabstract(o):
                    try:
                        if "rng" in inspect.signature(o.__init__).parameters:
                            out[f"{mod.__name__}.{n}"] = o
                    except (TypeError, ValueError):
                        pass
                for mn, mo in sorted(vars(o).items()):
                    f = mo.__func__ if isinstance(mo, (classmethod, staticmethod)) else mo
                    if inspect.isfunction(f) and mn not in ("__init__", "rng"):
                        if "rng" in inspect.signature(f).parameters:
                            out[f"{mod.__name__}.{n}.{mn}"] = f
            elif inspect.isfunction(o):
                if "rng" in inspect.signature(o).parameters:
                    out[f"{mod.__name__}.{n}"] = o
    return out, bad


COPY_KINDS = ("copy.copy", "copy.deepcopy", ".copy", ".deepcopy")


def _lib_defines(cls, name):
    """True iff a pybrops class in the MRO gives a concrete (non-abstract) definition of `name`."""
    for k in cls.__mro__:
        if name in vars(k) and getattr(k, "__module__", "").startswith("pybrops"):
            return not getattr(vars(k)[name], "__isabstractmethod__", False)
    return False


def copy_kinds(o):
    """The ways of copying a stochastic component for which sharing of the generator is demanded: copy.copy always
    (a shallow copy shares every attribute), and each copy operation the *library itself defines* for the class
    (__deepcopy__ -> copy.deepcopy, copy(), deepcopy()).  A generic copy.deepcopy of a class without its own
    __deepcopy__ clones the generator by python's default semantics; the library promises nothing there and it is
    only recorded (flag copy-unspecified:...)."""
    if isinstance(o, list):
        o = o[0]
    cls = type(o)
    kinds = ["copy.copy"]
    if _lib_defines(cls, "__deepcopy__"):
        kinds.append("copy.deepcopy")
    if _lib_defines(cls, "copy"):
        kinds.append(".copy")
    if _lib_defines(cls, "deepcopy"):
        kinds.append(".deepcopy")
    return kinds


def do_copy(o, kind):
    import copy
    if isinstance(o, list):
        return [do_copy(x, kind) for x in o]
    if kind == "copy.copy":
        return copy.copy(o)
    if kind == "copy.deepcopy":
        return copy.deepcopy(o)
    if kind == ".copy":
        return o.copy()
    return o.deepcopy()


def _objrecipe(site, build, call, recall=None, relabels=False):
    """Recipe of a component that is an object owning a stochastic method: build(fx, rng) -> object, call(fx, o).
    recall(fx, o): the stochastic call to be repeated on the same object with the generator put back to the same state
    (default: call); relabels: the object carries a deterministic counter, so a repeated call legitimately differs."""
    def fn(fx, rng):
        return call(fx, build(fx, rng))
    fn.build, fn.call, fn.recall, fn.relabels = build, call, recall or call, relabels
    return site, fn


def recipe(fullname, obj):
    """-> (site, fn(fx, rng) -> output) for a discovered component, or (None, reason) when there is no recipe.
    Object-based components additionally carry fn.build / fn.call (used for the copy variants)."""
    short = fullname.rsplit(".", 1)[1]
    mod = fullname.rsplit(".", 1)[0]
    if mod.startswith("pybrops.breed.prot.mate.") and short in MATE:
        return _objrecipe(short + ".mate", lambda fx, rng: obj(rng=rng), lambda fx, o: do_mate(fx, o, short), relabels=True)
    if mod in ("pybrops.breed.prot.mate.util", "pybrops.core.util.mate"):
        def fn(fx, rng):
            pg = fx.pg()
            sel = numpy.array([0, 2, 3, 1])
            if "dh" in short or "meiosis" in short:
                return obj(pg.mat, sel, pg.vrnt_xoprob, rng)
            return obj(pg.mat, pg.mat, sel, sel[::-1].copy(), pg.vrnt_xoprob, rng)
        return short, fn
    if short == "G_E_Phenotyping":
        return _objrecipe("G_E_Phenotyping.phenotype", mk_pheno, lambda fx, o: o.phenotype(fx.pg()))
    if mod.startswith("pybrops.breed.prot.sel.cfg."):
        for enc in ("Subset", "Real", "Integer", "Binary"):
            if short == f"{enc}SelectionConfiguration":
                return _objrecipe(short + ".sample_xconfig", (lambda e: lambda fx, rng: mk_cfgs(fx, e, rng))(enc), use_cfgs,
                                  recall=resample_cfgs)
            if short == f"{enc}MateSelectionConfiguration":
                return _objrecipe(short + ".sample_xconfig", (lambda e: lambda fx, rng: mk_cfgs(fx, e, rng, True))(enc), use_cfgs,
                                  recall=resample_cfgs)
    if mod == "pybrops.core.random.sampling":
        if short == "stochastic_universal_sampling":
            return short, lambda fx, rng: do_sus(fx, obj, rng)
        if short == "tiled_choice":
            return short, lambda fx, rng: do_tiled(fx, obj, rng)
        if short == "axis_shuffle":
            def fn(fx, rng):
                a = numpy.arange(12).reshape(3, 4)
                obj(a, 1, rng)
                return a
            return short, fn
        if short == "outcross_shuffle":
            def fn(fx, rng):
                x = numpy.array([[0, 0], [1, 1], [2, 3]])
                obj(x, rng)
                return x
            return short, fn
    if mod.startswith("pybrops.opt.algo."):
        if short in PYMOO_ALGOS:
            _, enc, nobj = PYMOO_ALGOS[short]
            return _objrecipe(short + ".minimize", lambda fx, rng: mk_algo(short, rng), lambda fx, o: do_minimize(fx, o, enc, nobj))
        if short == "SteepestDescentSubsetHillClimber":
            return _objrecipe(short + ".minimize", lambda fx, rng: obj(rng=rng), lambda fx, o: do_minimize(fx, o, "Subset", 1))
        if short.startswith("Unconstrained"):
            multi = "NSGA2" in short

            def build(fx, rng):
                return obj(ngen=3, mu=4, lamb=4, rng=rng) if "Genetic" in short else obj(rng=rng)

            def call(fx, o):
                r = o.optimize(_objfn2 if multi else _objfn1, 3, numpy.arange(10),
                               numpy.array([1.0, 1.0]) if multi else numpy.array([1.0]))
                return (numpy.asarray(r[0], dtype=float), numpy.asarray(r[1]))
            return _objrecipe(short + ".optimize", build, call)
    if mod.startswith("pybrops.breed.prot.sel.") and inspect.isclass(obj) and sel_encoding(short):
        def prepare(fx):
            # find out (outside the measured call) with which number of objectives the generic fixture drives
            # this class; a class that cannot be driven is counted as uncovered, never as a violation
            if short not in _SEL_NOBJ:
                _SEL_NOBJ[short] = None
                for nobj in (1, 2):
                    try:
                        f2 = Fx(fx.v)
                        do_select(f2, mk_selprot(f2, obj, nobj, numpy.random.Generator(numpy.random.PCG64(1))))
                        _SEL_NOBJ[short] = nobj
                        break
                    except Exception as e:
                        _SEL_ERR[short] = f"{type(e).__name__}: {str(e)[:80]}"
            if _SEL_NOBJ[short] is None:
                raise NoRecipe(_SEL_ERR.get(short, "?"))

        site, fn = _objrecipe(f"{short}.select", lambda fx, rng: mk_selprot(fx, obj, _SEL_NOBJ[short], rng), do_select)
        fn.prepare = prepare
        return site, fn
    return None, "no recipe (constructor needs a bespoke fixture)"


_SEL_NOBJ = {}
_SEL_ERR = {}


class NoRecipe(Exception):
    """The generic fixture cannot drive this component (counted as uncovered, never as a violation)."""


