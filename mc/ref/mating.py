"""Reference model of the seven mating protocols, written from the class
docstrings (pedigree diagrams), not from the code:

  SelfCross        xconfig [p]                    p selfed, nmating*nprogeny offspring per cross
  TwoWayCross      [female, male]                 female gamete -> copy 0, male gamete -> copy 1
  TwoWayDHCross    [female, male]                 nmating F1 per cross, nprogeny DH per F1
  ThreeWayCross    [recurrent, female, male]      nmating F1 (female x male); recurrent x F1, nprogeny per F1
  ThreeWayDHCross  [recurrent, female, male]      nmating F1; one backcross per F1; nprogeny DH per backcross
  FourWayCross     [female2, male2, female1, male1]  (female1 x male1) hybrid on the female side
  FourWayDHCross   same                           one dihybrid per F1 pair; nprogeny DH per dihybrid

A meiosis walks a parent's two copies left to right, starting on copy 0 and
changing copy in front of every marker whose crossover flag is set.  `xo` is
the list of per-call crossover-flag matrices in the order the draws were made.
"""
import numpy

PROTOS = ("SelfCross", "TwoWayCross", "TwoWayDHCross", "ThreeWayCross", "ThreeWayDHCross",
          "FourWayCross", "FourWayDHCross")
NPARENT = {"SelfCross": 1, "TwoWayCross": 2, "TwoWayDHCross": 2, "ThreeWayCross": 3,
           "ThreeWayDHCross": 3, "FourWayCross": 4, "FourWayDHCross": 4}
IS_DH = {p: p.endswith("DHCross") for p in PROTOS}


class DrawsExhausted(Exception):
    pass


class _XO:
    def __init__(self, mats):
        self.mats = list(mats)
        self.i = 0

    def take(self, g, m):
        if self.i >= len(self.mats):
            raise DrawsExhausted(f"model needs draw #{self.i} of shape {(g, m)}")
        x = self.mats[self.i]
        self.i += 1
        if x.shape != (g, m):
            raise DrawsExhausted(f"draw #{self.i-1} has shape {x.shape}, model needs {(g, m)}")
        return x


def meiosis(geno, sel, xo):
    g, m = len(sel), geno.shape[2]
    out = numpy.empty((g, m), dtype=geno.dtype)
    for i, s in enumerate(sel):
        ph = 0
        for j in range(m):
            if xo[i, j]:
                ph = 1 - ph
            out[i, j] = geno[ph, s, j]
    return out


def mate(fg, mg, fsel, msel, X):
    m = fg.shape[2]
    a = meiosis(fg, fsel, X.take(len(fsel), m))
    b = meiosis(mg, msel, X.take(len(msel), m))
    return numpy.stack([a, b])


def rep(a, counts):
    out = []
    for v, c in zip(a, counts):
        out.extend([v] * int(c))
    return out


def simulate(proto, geno, xconfig, nmating, nprogeny, nself, xo_mats):
    """Return expected progeny array (2, nprog, m) and the family index of each progeny."""
    X = _XO(xo_mats)
    nc = len(xconfig)
    nm = [int(nmating)] * nc if numpy.ndim(nmating) == 0 else [int(v) for v in nmating]
    npg = [int(nprogeny)] * nc if numpy.ndim(nprogeny) == 0 else [int(v) for v in nprogeny]
    col = lambda k: [int(r[k]) for r in xconfig]
    prod = [a * b for a, b in zip(nm, npg)]
    per_mating_prog = rep(npg, nm)              # nprogeny of the cross, once per mating
    if proto in ("SelfCross", "TwoWayCross"):
        f = rep(col(0), prod)
        mm = f if proto == "SelfCross" else rep(col(1), prod)
        h = mate(geno, geno, f, mm, X)
        for _ in range(nself):
            a = list(range(h.shape[1]))
            h = mate(h, h, a, a, X)
        out = h
    elif proto == "TwoWayDHCross":
        h = mate(geno, geno, rep(col(0), nm), rep(col(1), nm), X)
        for _ in range(nself):
            a = list(range(h.shape[1]))
            h = mate(h, h, a, a, X)
        ps = rep(range(h.shape[1]), per_mating_prog)
        g = meiosis(h, ps, X.take(len(ps), h.shape[2]))
        out = numpy.stack([g, g])
    elif proto == "ThreeWayCross":
        f1 = mate(geno, geno, rep(col(1), nm), rep(col(2), nm), X)
        f1sel = rep(range(f1.shape[1]), per_mating_prog)
        h = mate(geno, f1, rep(col(0), prod), f1sel, X)
        for _ in range(nself):
            a = list(range(h.shape[1]))
            h = mate(h, h, a, a, X)
        out = h
    elif proto == "ThreeWayDHCross":
        f1 = mate(geno, geno, rep(col(1), nm), rep(col(2), nm), X)
        bc = mate(geno, f1, rep(col(0), nm), list(range(f1.shape[1])), X)
        for _ in range(nself):
            a = list(range(bc.shape[1]))
            bc = mate(bc, bc, a, a, X)
        ps = rep(range(bc.shape[1]), per_mating_prog)
        g = meiosis(bc, ps, X.take(len(ps), bc.shape[2]))
        out = numpy.stack([g, g])
    elif proto in ("FourWayCross", "FourWayDHCross"):
        ab = mate(geno, geno, rep(col(2), nm), rep(col(3), nm), X)
        cd = mate(geno, geno, rep(col(0), nm), rep(col(1), nm), X)
        if proto == "FourWayCross":
            s = rep(range(ab.shape[1]), per_mating_prog)
            h = mate(ab, cd, s, s, X)
        else:
            s = list(range(ab.shape[1]))
            h = mate(ab, cd, s, s, X)
        for _ in range(nself):
            a = list(range(h.shape[1]))
            h = mate(h, h, a, a, X)
        if proto == "FourWayCross":
            out = h
        else:
            ps = rep(range(h.shape[1]), per_mating_prog)
            g = meiosis(h, ps, X.take(len(ps), h.shape[2]))
            out = numpy.stack([g, g])
    else:
        raise KeyError(proto)
    if X.i != len(X.mats):
        raise DrawsExhausted(f"implementation made {len(X.mats)} draws, model consumed {X.i}")
    fam = rep(range(nc), prod)
    return out, fam


def founders(proto, row, nself):
    """(allowed founder taxa for copy 0, for copy 1) of a progeny of cross `row`."""
    row = [int(v) for v in row]
    allp = set(row)
    if IS_DH[proto] or nself > 0:
        return allp, allp
    if proto == "SelfCross":
        return {row[0]}, {row[0]}
    if proto == "TwoWayCross":
        return {row[0]}, {row[1]}
    if proto == "ThreeWayCross":
        return {row[0]}, {row[1], row[2]}
    if proto == "FourWayCross":
        return {row[2], row[3]}, {row[0], row[1]}
    raise KeyError(proto)
