"""Reference side of C07: independent definitions (self-pairing count, local minimum, cross-map
enumeration, multiplicity rules, criterion of truncation protocols), harness-side *exact* optimisers
implementing the library's public OptimizationAlgorithm interfaces, population fixtures, and the
scripted sampling environment (every answer of choice / shuffle / uniform a choice point).

Shares no code with pybrops; only the public abstract optimiser / solution classes are subclassed /
instantiated, as a user of the library would."""
from __future__ import annotations
import contextlib, itertools, math, sys
from fractions import Fraction
import numpy

from .. import compat  # noqa: F401
from ..env import ScriptedGenerator, ScriptedRandomState, UnscriptedDraw, shape_of, TWO53


# ======================================================================================
# independent definitions
def selfpair(rows):
    """number of self-pairings of a cross table: sum over crosses of (entries - distinct entries)"""
    return sum(len(r) - len(set(r)) for r in rows)


def improving_pairs(flat, ncross, nparent):
    """all position pairs (i<j) of the flattened table whose exchange reduces the self-pairing count"""
    flat = list(flat)
    rows = [flat[i * nparent:(i + 1) * nparent] for i in range(ncross)]
    base = selfpair(rows)
    out = []
    s = len(flat)
    for i in range(s):
        for j in range(i + 1, s):
            if flat[i] == flat[j] or i // nparent == j // nparent:
                continue
            f = list(flat)
            f[i], f[j] = f[j], f[i]
            if selfpair([f[a * nparent:(a + 1) * nparent] for a in range(ncross)]) < base:
                out.append((i, j))
    return out


def xmap_ref(ntaxa, nparent, unique):
    """independent upper-triangle enumeration (with / without the diagonal)"""
    it = itertools.combinations if unique else itertools.combinations_with_replacement
    return [tuple(c) for c in it(range(ntaxa), nparent)]


def weak_orderings(n):
    """all weak orderings of n items as dense rank vectors (ranks 0..r, every rank used)"""
    out = []
    for r in itertools.product(range(n), repeat=n):
        if set(r) == set(range(max(r) + 1)):
            out.append(r)
    return out


def distinct_arrangements(vals):
    """all distinct orderings of a multiset given as a list, identity (the given order) first,
    each returned as an index permutation of the given list"""
    n = len(vals)
    seen = set()
    out = []
    for p in itertools.permutations(range(n)):
        key = tuple(vals[i] for i in p)
        if key not in seen:
            seen.add(key)
            out.append(p)
    return out


_ARR_CACHE = {}


def arrangements_cached(vals):
    """distinct_arrangements keyed by the *pattern* of equal values (so the cache is small)"""
    first = {}
    pat = tuple(first.setdefault(v, len(first)) for v in vals)
    r = _ARR_CACHE.get(pat)
    if r is None:
        r = _ARR_CACHE[pat] = distinct_arrangements(list(pat))
    return r


# ======================================================================================
# the scripted sampling environment
SUS_J = (2 ** 52, 0, 1, 2, 2 ** 51, 3 * 2 ** 51, TWO53 - 2, TWO53 - 1)   # default (index 0) = mid-range


class SamplingHandler:
    """Turns every draw made by sample_xconfig into choice points.

    choice(a, re, replace=False)   all re-samples without replacement by *value* (positions holding equal
                                   values are not distinguished); unordered (returned in pool order) unless
                                   ordered_choice: the only consumer shuffles the result exhaustively next
    shuffle(1-D array)             every distinct arrangement of the multiset
    shuffle(exchange-pair table)   outcross_shuffle's order of trial exchanges: one representative per
                                   behaviour class = which improving exchange is tried first (all of them);
                                   a single answer when no exchange improves.  The handler keeps its own
                                   copy of the table (it produced the arrangement) and mirrors the accepted
                                   exchange; mode 'front' (no model) enumerates 'pair p first' for all p.
    uniform(0, d)                  SUS offset: d*j*2^-53 for the reachable extremes and mid-range values
    """

    def __init__(self, ch, ncross, nparent, exch_mode="model", sus_menu=None, axis_budget=None, ordered_choice=False):
        self.ch = ch
        self.ncross, self.nparent = ncross, nparent
        self.exch_mode = exch_mode
        self.sus_menu = SUS_J if sus_menu is None else sus_menu
        self.model = None            # flat arrangement as produced by the first 1-D shuffle
        self.log = []
        self.divergence = False
        self.n_exch_rounds = 0
        self.n_exch_improving = 0
        self.frozen = False          # True: every later draw takes its default answer (no choice points)
        self.axis_budget = axis_budget   # None: every cross's final shuffle fully enumerated (product);
        self.axis_used = 0               # k: at most k crosses get a non-default final shuffle (sum)
        self.ordered_choice = ordered_choice

    def _choose(self, n, tag):
        if n <= 1 or self.frozen:
            return 0
        return self.ch.choose(n, tag=tag)

    # -- draws ---------------------------------------------------------------------
    def uniform(self, gen, low, high, size):
        if size is not None or low != 0.0:
            raise UnscriptedDraw(f"uniform({low},{high},{size})")
        c = self._choose(len(self.sus_menu), "sus-offset")
        j = self.sus_menu[c]
        u = j / TWO53
        val = low + (high - low) * u          # numpy's own formula
        self.log.append(("uniform", j))
        return val

    def choice(self, gen, a, size, replace, p):
        if p is not None:
            raise UnscriptedDraw(f"choice(p={p})")
        a = numpy.asarray(a)
        k = int(numpy.prod(shape_of(size))) if size is not None else 1
        pool = a.tolist()
        out = []
        if replace:                      # not used by the code as written; every sample with replacement is reachable
            vals = []
            for v in pool:
                if v not in vals:
                    vals.append(v)
            out = [vals[self._choose(len(vals), "choice-r")] for _ in range(k)]
            if self.model is None and k == self.ncross * self.nparent:
                self.model = list(out)       # this sample IS the table (no shuffle follows on that path)
        elif self.ordered_choice:
            for _ in range(k):
                vals = []
                for v in pool:
                    if v not in vals:
                        vals.append(v)
                c = self._choose(len(vals), "choice")
                out.append(vals[c])
                pool.remove(vals[c])
        elif k:
            seen, menu = set(), []
            for comb in itertools.combinations(range(len(pool)), k):
                key = tuple(pool[i] for i in comb)
                if key not in seen:
                    seen.add(key)
                    menu.append(key)
            out = list(menu[self._choose(len(menu), "choice")])
        self.log.append(("choice", tuple(out)))
        res = numpy.array(out, dtype=a.dtype)
        return res.reshape(shape_of(size)) if size is not None else res[0]

    def shuffle(self, gen, x):
        if not isinstance(x, numpy.ndarray):
            raise UnscriptedDraw("shuffle of a non-array")
        if x.ndim == 2 and x.shape[1] == 2 and x.shape[0] == (self.ncross * self.nparent) * (self.ncross * self.nparent - 1) // 2 \
                and self.nparent >= 1 and self._looks_like_exchix(x):
            return self._shuffle_exch(x)
        if x.ndim != 1:
            raise UnscriptedDraw(f"shuffle of shape {x.shape}")
        vals = x.tolist()
        arr = arrangements_cached(vals)
        is_axis = self.model is not None and self.nparent > 1 and len(vals) == self.nparent and self.n_exch_rounds > 0
        if is_axis and self.axis_budget is not None and self.axis_used >= self.axis_budget:
            c = 0
        else:
            c = self._choose(len(arr), "axis" if is_axis else "shuffle")
            if is_axis and c:
                self.axis_used += 1
        perm = arr[c]
        x[:] = x[list(perm)]
        self.log.append(("shuffle", perm))
        if self.model is None and len(vals) == self.ncross * self.nparent:
            self.model = x.tolist()
        elif self.model is not None and len(vals) == self.nparent:
            pass   # axis_shuffle of one cross: rows are tracked by the oracle, not by the model
        return None

    def _looks_like_exchix(self, x):
        s = self.ncross * self.nparent
        return x.dtype.kind in "iu" and int(x.min(initial=0)) >= 0 and int(x.max(initial=0)) < max(s, 1) and bool((x[:, 0] < x[:, 1]).all())

    def _shuffle_exch(self, x):
        self.n_exch_rounds += 1
        pairs = [tuple(r) for r in x.tolist()]
        if self.exch_mode == "model" and self.model is not None:
            imp = improving_pairs(self.model, self.ncross, self.nparent)
            if not imp:
                self.log.append(("exch", None))
                return None                      # identity order; nothing can be accepted
            c = self._choose(len(imp), "exch-first")
            first = imp[c]
            self.n_exch_improving += 1
            i, j = first
            self.model[i], self.model[j] = self.model[j], self.model[i]
        else:
            c = self._choose(len(pairs), "exch-front")
            first = pairs[c]
        k = pairs.index(first)
        order = [k] + [i for i in range(len(pairs)) if i != k]
        x[:] = x[order]
        self.log.append(("exch", first))
        return None

    def multivariate_normal(self, gen, mean, cov, size):
        """random 'breeding values' of the Random* protocols: the scripted answer is a given (n,t) matrix"""
        mvn = getattr(self, "mvn", None)
        if mvn is None or shape_of(size) + (len(numpy.atleast_1d(mean)),) != mvn.shape:
            raise UnscriptedDraw(f"multivariate_normal(size={size})")
        self.log.append(("mvn",))
        return mvn.copy()


def make_rng(handler, kind):
    return ScriptedGenerator(handler) if kind == "Generator" else ScriptedRandomState(handler)


_PRNG_MODS = None


@contextlib.contextmanager
def patched_global_prng(obj):
    """Replace every module-level name `global_prng` inside pybrops (the object the sampling code falls
    back on when it gets rng=None) by `obj`, inside this process only; restored on exit.  Also verifies
    that numpy's real global stream was not consumed (all randomness must go through the script)."""
    import pybrops.core.random.prng as P
    real = P.global_prng
    global _PRNG_MODS
    if _PRNG_MODS is None or _PRNG_MODS[0] != len(sys.modules):
        _PRNG_MODS = (len(sys.modules), [mod for name, mod in list(sys.modules.items())
                                         if mod is not None and name.startswith("pybrops") and getattr(mod, "global_prng", None) is real])
    touched = _PRNG_MODS[1]
    for mod in touched:
        mod.global_prng = obj
    st0 = numpy.random.get_state()
    try:
        yield
    finally:
        for mod in touched:
            mod.global_prng = real
    st1 = numpy.random.get_state()
    if not (st0[2] == st1[2] and numpy.array_equal(st0[1], st1[1])):
        raise UnscriptedDraw("numpy's real global stream was consumed during a scripted execution")


# ======================================================================================
# multiplicity rules (property statement)
def check_multiplicity(enc, decn, counts, total):
    """enc in subset|binary|integer|real; decn = the chosen decision (python list); counts = dict unit->uses;
    total = number of slots.  Returns None if fine else a message."""
    if enc == "subset":
        sel = list(decn)
        c = [counts.get(u, 0) for u in sel]
        if sum(c) != total:
            return f"uses {counts} do not add up to {total} over the chosen units {sel}"
        if max(c) - min(c) > 1:
            return f"chosen units {sel} used {c} times: not even (max-min>1)"
        return None
    if enc == "binary":
        sel = [i for i, v in enumerate(decn) if v]
        return check_multiplicity("subset", sel, counts, total)
    if enc == "integer":
        m = sum(int(v) for v in decn)
        qu = total // m
        for i, v in enumerate(decn):
            lo, hi = qu * int(v), (qu + 1) * int(v)
            if not (lo <= counts.get(i, 0) <= hi):
                return f"unit {i} with count {v} of {m} used {counts.get(i, 0)} times in {total} slots, allowed {lo}..{hi}"
        if total % m == 0:
            for i, v in enumerate(decn):
                if counts.get(i, 0) != qu * int(v):
                    return f"unit {i}: {counts.get(i, 0)} uses, but slots are an exact multiple: expected {qu * int(v)}"
        return None
    if enc == "real":
        tot = sum(Fraction(float(v)) for v in decn)
        for i, v in enumerate(decn):
            share = Fraction(float(v)) * total / tot
            if abs(counts.get(i, 0) - share) > 1:
                return f"unit {i} with contribution {v} used {counts.get(i, 0)} times, proportional share {float(share):.6g} of {total}"
        return None
    raise ValueError(enc)


def is_floor_ceil(decn, counts, total):
    tot = sum(Fraction(float(v)) for v in decn)
    for i, v in enumerate(decn):
        share = Fraction(float(v)) * total / tot
        if not (math.floor(share) <= counts.get(i, 0) <= math.ceil(share)):
            return False
    return True


def selected_units(enc, decn):
    if enc == "subset":
        return set(int(v) for v in decn)
    return {i for i, v in enumerate(decn) if v > 0}


# ======================================================================================
# harness-side optimisers (public interface: <Enc>OptimizationAlgorithm.minimize(prob, miscout) -> <Enc>Solution)
def _enc_classes(enc):
    import importlib
    E = {"subset": "Subset", "integer": "Integer", "binary": "Binary", "real": "Real"}[enc]
    A = getattr(importlib.import_module(f"pybrops.opt.algo.{E}OptimizationAlgorithm"), f"{E}OptimizationAlgorithm")
    S = getattr(importlib.import_module(f"pybrops.opt.soln.{E}Solution"), f"{E}Solution")
    return A, S


def _solution(S, prob, decn, obj, ineq, eq):
    decn = numpy.asarray(decn)
    return S(ndecn=prob.ndecn, decn_space=prob.decn_space, decn_space_lower=prob.decn_space_lower,
             decn_space_upper=prob.decn_space_upper, nobj=prob.nobj, obj_wt=prob.obj_wt, nineqcv=prob.nineqcv,
             ineqcv_wt=prob.ineqcv_wt, neqcv=prob.neqcv, eqcv_wt=prob.eqcv_wt, nsoln=len(decn),
             soln_decn=decn, soln_obj=numpy.asarray(obj, dtype=float).reshape(len(decn), prob.nobj),
             soln_ineqcv=numpy.asarray(ineq, dtype=float).reshape(len(decn), prob.nineqcv),
             soln_eqcv=numpy.asarray(eq, dtype=float).reshape(len(decn), prob.neqcv))


def decision_space(enc, prob, int_cap=2, real_grid=(0.0, 0.5, 1.0)):
    """the complete (bounded) decision space the brute-force optimiser scans, in a fixed order"""
    if enc == "subset":
        for c in itertools.combinations(prob.decn_space.tolist(), prob.ndecn):
            yield numpy.array(c, dtype=prob.decn_space.dtype)
        return
    lo = numpy.asarray(prob.decn_space_lower)
    hi = numpy.asarray(prob.decn_space_upper)
    if enc == "binary":
        axes = [(0, 1)] * prob.ndecn
        dt = "int64"
    elif enc == "integer":
        axes = [tuple(range(int(l), min(int(h), int(l) + int_cap) + 1)) for l, h in zip(lo, hi)]
        dt = "int64"
    else:
        axes = [tuple(float(l) + (float(h) - float(l)) * g for g in real_grid) for l, h in zip(lo, hi)]
        dt = "float64"
    for c in itertools.product(*axes):
        if not any(c):
            continue                   # the all-zero vector selects nobody: not a decision
        yield numpy.array(c, dtype=dt)


def make_brute(enc, tiebreak="first", int_cap=2):
    """Exact single-objective optimiser: scans the whole decision space with prob.evalfn, minimises
    (total constraint violation, objective) lexicographically; `tiebreak` says which of several optima
    is returned (first / last in scan order) so that ties are exercised both ways."""
    A, S = _enc_classes(enc)

    class BruteForce(A):
        def __init__(self):
            self.calls = 0
            self.last = None
            self.last_prob = None
            self.n_optima = 0

        def minimize(self, prob, miscout=None, **kwargs):
            self.calls += 1
            best = None
            nopt = 0
            for x in decision_space(enc, prob, int_cap=int_cap):
                obj, ineq, eq = prob.evalfn(x)
                cv = float(numpy.sum(numpy.maximum(ineq, 0.0)) + numpy.sum(numpy.abs(eq)))
                key = (cv, float(obj[0]))
                if best is None or key < best[0]:
                    best = (key, x, obj, ineq, eq)
                    nopt = 1
                elif key == best[0]:
                    nopt += 1
                    if tiebreak == "last":
                        best = (key, x, obj, ineq, eq)
            self.n_optima = nopt
            _, x, obj, ineq, eq = best
            self.last = _solution(S, prob, [x], [obj], [ineq], [eq])
            self.last_prob = prob
            return self.last

    return BruteForce()


def front_decisions(enc, prob, q):
    """q distinct valid decisions of the problem's own shape, deterministic, not sorted"""
    if enc == "subset":
        combos = list(itertools.combinations(prob.decn_space.tolist(), prob.ndecn))
        N = len(combos)
        if N < q:
            return None
        out = []
        for j in range(q):
            c = list(combos[(j * (N // q) + 1) % N])
            if j % 2:
                c.reverse()
            out.append(c)
        return numpy.array(out, dtype=prob.decn_space.dtype)
    n = prob.ndecn
    vals = {"binary": (0, 1), "integer": (0, 1, 2), "real": (0.0, 0.5, 1.0)}[enc]
    dt = "float64" if enc == "real" else "int64"
    if len(vals) ** n - 1 < q:
        return None
    out = []
    N = len(vals) ** n - 1
    for j in range(q):
        idx = (j * (N // q) + 1) % N + 1            # skip index 0 = the all-zero vector
        v = []
        for _ in range(n):
            v.append(vals[idx % len(vals)])
            idx //= len(vals)
        out.append(v)
    return numpy.array(out, dtype=dt)


def make_given_front(enc, objs, cv=None):
    """Stub multi-objective optimiser returning a GIVEN (non-dominated) objective set attached to q distinct
    decisions of the problem's shape, whatever the problem.  cv (optional): per-member constraint violation reported
    unfiltered in the first inequality and/or equality column the problem declares (as the library's own sorting
    optimiser documents: violations are reported, not used to filter)."""
    A, S = _enc_classes(enc)
    objs = numpy.asarray(objs, dtype=float)

    class GivenFront(A):
        def __init__(self):
            self.calls = 0
            self.last = None
            self.last_prob = None
            self.decns = None

        def minimize(self, prob, miscout=None, **kwargs):
            self.calls += 1
            q = len(objs)
            decns = front_decisions(enc, prob, q)
            if decns is None:
                raise NoFront(f"decision space too small for {q} distinct decisions")
            self.decns = decns.copy()
            ineq = numpy.zeros((q, prob.nineqcv))
            eq = numpy.zeros((q, prob.neqcv))
            if cv is not None:
                if prob.nineqcv:
                    ineq[:, 0] = cv
                if prob.neqcv:
                    eq[:, -1] = cv
            self.cv = (ineq.copy(), eq.copy())
            self.last = _solution(S, prob, decns, objs.copy(), ineq, eq)
            self.last_prob = prob
            return self.last

    return GivenFront()


class NoFront(Exception):
    pass


def library_sorting():
    from pybrops.opt.algo.SortingSubsetOptimizationAlgorithm import SortingSubsetOptimizationAlgorithm
    return SortingSubsetOptimizationAlgorithm()


# ======================================================================================
# population fixtures
VALUE_ALPHABETS = (
    (-1.5, 0.0, 0.25, 2.0, 7.0),
    (3.0, 3.5, 10.0, 11.0, 1e3),
    (-8.0, -2.0, -0.5, -0.125, 0.0),
)
NAME_SETS = (
    ("T3", "T0", "T4", "T1", "T2"),         # not sorted
    ("zeta", "alpha", "mu", "beta", "omega"),
)


def rank_values(ranks, seed):
    alpha = VALUE_ALPHABETS[seed % len(VALUE_ALPHABETS)]
    return [alpha[r] for r in ranks]


class Population:
    """n individuals; individual i is homozygous (or heterozygous) for the '1' allele at marker i only, so
    that an additive model with effects u gives individual i the value beta + c*u_i: criterion values are
    whatever the case dictates.  `order` lists which individual sits at which position of the matrices
    handed to the library (a permutation of range(n)); `names[i]` is individual i's label."""

    def __init__(self, n, crit, order=None, names=None, het=False, families=None, extra_marker=True):
        from pybrops.popgen.gmat.DensePhasedGenotypeMatrix import DensePhasedGenotypeMatrix
        from pybrops.popgen.gmat.DenseGenotypeMatrix import DenseGenotypeMatrix
        from pybrops.popgen.bvmat.DenseBreedingValueMatrix import DenseBreedingValueMatrix
        from pybrops.model.gmod.DenseAdditiveLinearGenomicModel import DenseAdditiveLinearGenomicModel
        crit = numpy.asarray(crit, dtype=float)
        if crit.ndim == 1:
            crit = crit[:, None]
        self.n, self.t = crit.shape
        self.crit = crit
        self.order = list(range(n)) if order is None else list(order)
        self.names = list(NAME_SETS[0][:n]) if names is None else list(names)
        self.het = het
        m = n + (1 if extra_marker else 0)
        self.m = m
        dose = 1 if het else 2
        ph = numpy.zeros((2, n, m), dtype="int8")
        for i in range(n):
            ph[0, i, i] = 1
            if not het:
                ph[1, i, i] = 1
        if extra_marker:                     # one marker that segregates differently, effect 0
            ph[0, :, n] = [i % 2 for i in range(n)]
        ph = ph[:, self.order, :]
        fam = list(range(n)) if families is None else list(families)
        taxa = numpy.array([self.names[i] for i in self.order], dtype=object)
        taxa_grp = numpy.array([fam[i] for i in self.order], dtype="int64")
        vkw = dict(vrnt_chrgrp=numpy.array([1] * m, dtype="int64"), vrnt_phypos=numpy.arange(1, m + 1, dtype="int64") * 10,
                   vrnt_name=numpy.array([f"m{j}" for j in range(m)], dtype=object),
                   vrnt_genpos=numpy.arange(m, dtype=float) * 0.3, vrnt_xoprob=numpy.array([0.5] + [0.25] * (m - 1), dtype=float),
                   vrnt_hapgrp=numpy.arange(m, dtype="int64"), vrnt_mask=numpy.ones(m, dtype=bool))
        self.pgmat = DensePhasedGenotypeMatrix(mat=ph, taxa=taxa, taxa_grp=taxa_grp, **vkw)
        self.pgmat.group_vrnt()
        self.ph0 = numpy.array(self.pgmat.mat, copy=True)
        self.taxa0 = list(taxa.tolist())
        self.gmat = DenseGenotypeMatrix(mat=ph.sum(0).astype("int8"), taxa=taxa.copy(), taxa_grp=taxa_grp.copy(), ploidy=2, **vkw)
        self.gmat.group_vrnt()
        trait = numpy.array([f"trait{j}" for j in range(self.t)], dtype=object)
        self.bvmat = DenseBreedingValueMatrix.from_numpy(crit[self.order, :].copy(), taxa=taxa.copy(), taxa_grp=taxa_grp.copy(), trait=trait)
        u = numpy.zeros((m, self.t))
        u[:n, :] = crit / dose
        self.beta = numpy.array([[0.75] * self.t])
        self.gpmod = DenseAdditiveLinearGenomicModel(beta=self.beta.copy(), u_misc=None, u_a=u, trait=trait)
        self.u = u

    def args(self):
        return dict(pgmat=self.pgmat, gmat=self.gmat, ptdf=None, bvmat=self.bvmat, gpmod=self.gpmod, t_cur=0, t_max=5)

    def individual_at(self, pos):
        return self.order[int(pos)]

    def pgmat_unchanged(self):
        return (numpy.array_equal(numpy.asarray(self.pgmat.mat), self.ph0) and list(self.pgmat.taxa.tolist()) == self.taxa0
                and self.pgmat.ntaxa == self.n)


# ======================================================================================
# independent criteria / preference transformation
def standardise(crit):
    """column-wise (x-mean)/sd with population sd, sd 0 -> 1 (what a scaled breeding value matrix holds)"""
    crit = numpy.asarray(crit, dtype=float)
    mu = crit.mean(0)
    sd = crit.std(0)
    sd[sd == 0.0] = 1.0
    return (crit - mu) / sd


def ohv_cross_values(phases, u, crosses):
    """optimal haploid value of each cross when every marker is its own haplotype block:
    ploidy * sum_markers max over (parent, phase) of allele*effect.  phases (2,n,m), u (m,)"""
    out = []
    for r in crosses:
        tot = 0.0
        for j in range(phases.shape[2]):
            tot += max(float(phases[p, a, j]) * float(u[j]) for a in r for p in range(phases.shape[0]))
        out.append(phases.shape[0] * tot)
    return out


def ndpt_to_vec_dist(front, obj_wt, vec_wt):
    """distance of each point (objectives signed by obj_wt, min-max scaled per objective; an objective that is
    constant over the front contributes 0) to the preference line spanned by vec_wt — the documented default
    non-dominated-set transformation"""
    out = []
    front = [[float(v) * float(w) for v, w in zip(row, obj_wt)] for row in front]
    nobj = len(front[0])
    lo = [min(r[j] for r in front) for j in range(nobj)]
    sc = []
    for j in range(nobj):
        col = [r[j] - lo[j] for r in front]
        mx = max(col)
        sc.append([(c / mx) if mx != 0 else 0.0 for c in col])
    vv = sum(float(w) * float(w) for w in vec_wt)
    for i in range(len(front)):
        p = [sc[j][i] for j in range(nobj)]
        s = sum(pj * float(w) for pj, w in zip(p, vec_wt)) / vv
        d = math.sqrt(sum((pj - s * float(w)) ** 2 for pj, w in zip(p, vec_wt)))
        out.append(d)
    return out


def antichains(grid, q, nobj=2):
    """all ordered sequences of q mutually non-dominated distinct points of grid^nobj"""
    pts = list(itertools.product(grid, repeat=nobj))

    def nd(a, b):
        return any(x < y for x, y in zip(a, b)) and any(x > y for x, y in zip(a, b))
    out = []
    for seq in itertools.permutations(pts, q):
        if all(nd(seq[i], seq[j]) for i in range(q) for j in range(i + 1, q)):
            out.append(seq)
    return out
