------------------------------- MODULE Loop -------------------------------
(***************************************************************************)
(* Call protocol of a recurrent-selection breeding programme (property C20 *)
(* of /verif/properties.jsonl), written from the property statement:       *)
(*                                                                         *)
(*   evolve(nrep, ngen, lbook, loginit)  initialises the programme if it   *)
(*   has no starting state; then, for every replicate: the logbook's       *)
(*   replicate counter is advanced once, the working state becomes a copy  *)
(*   of the stored starting state that shares nothing with it, the time    *)
(*   index is 0, the evaluation operator is called once (and logged if     *)
(*   loginit), the time index becomes 1, and for every generation parent   *)
(*   selection, mating, evaluation and survivor selection are called in    *)
(*   that order, each exactly once, each followed by its log call, each    *)
(*   receiving what its predecessor returned; the time index grows by one  *)
(*   per generation.                                                       *)
(*                                                                         *)
(* The environment is part of the model: every operator independently      *)
(* behaves in one of four ways towards each of the five state containers   *)
(* (`beh`, chosen in Init), and the programme is either constructed with a *)
(* starting state or obtains it from its InitializationOperator            *)
(* (`preinit`) with a deadline `t_max` from TMAXSET that only travels to    *)
(* the calls; the constant EMPTY says which of the five start containers *)
(* are empty dicts (initial-state alphabet).                                *)
(* The data part is an abstract heap: per container the edit               *)
(* history of the working copy (dict level `outer`, inner-object level     *)
(* `inner`), whether the working copy's inner object *is* the stored start *)
(* container's inner object (`alias`), and the edit history of the stored  *)
(* start container's inner object (`start`; it can only change when the    *)
(* environment itself first aliases it into the working state and then     *)
(* mutates it in place).                                                   *)
(*                                                                         *)
(* mc/checks/c20.py runs TLC on this module once per constant assignment,  *)
(* parses the complete state graph and replays EVERY behaviour against     *)
(* pybrops.breed.arch.RecurrentSelectionBreedingProgram.  Binding of the   *)
(* actions to what the instrumented environment observes:                  *)
(*   Initialize -> InitializationOperator.initialize                       *)
(*   ResetRep   -> assignment to lbook.rep (value = rep')                  *)
(*   EvalInit, Evaluate -> EvaluationOperator.evaluate                     *)
(*   PSelect / Mate / SSelect -> pselect / mate / sselect                  *)
(*   LogInit / LogPSelect / LogMate / LogEvaluate / LogSSelect ->          *)
(*       Logbook.log_initialize / log_pselect / log_mate / log_evaluate /  *)
(*       log_sselect                                                       *)
(*   Tick, Finish, Terminated -> not observable (Tick shows in the t_cur   *)
(*       of the following calls)                                           *)
(* every call is compared with t_cur, rep, work (received = before the     *)
(* action, returned = after) and start of the model.                       *)
(***************************************************************************)
EXTENDS Naturals, Sequences, FiniteSets

CONSTANTS NREP,      \* number of replicates            (Nat)
          NGEN,      \* generations per replicate       (Nat)
          LOGINIT,   \* log the initial evaluation?     (BOOLEAN)
          PSELBEH,   \* behaviours allowed for the parent-selection operator
                     \* (a subset of Behs; only used to split one constant
                     \*  assignment over several TLC runs)
          TMAXSET,   \* configuration: the deadlines t_max the programme may be
                     \* constructed with (a non-empty set of Nat).  t_max is only
                     \* handed on to operators and log calls; the protocol itself
                     \* never consults it
          EMPTY      \* initial state: the start containers that are EMPTY dicts
                     \* (a subset of Cont).  An empty dict is a valid, given start
                     \* container: it has no inner object that could be shared,
                     \* and it does not make the programme "uninitialised"

Ops  == {"psel", "mate", "eval", "ssel"}
Behs == {"pure", "inplace", "alias", "mixed"}
Cont == {"genome", "geno", "pheno", "bval", "gmod"}

\* what a "mixed" operator does to each container
MixedMap == [genome |-> "pure", geno |-> "inplace", pheno |-> "alias",
             bval |-> "inplace", gmod |-> "pure"]

ASSUME /\ NREP \in Nat /\ NGEN \in Nat /\ LOGINIT \in BOOLEAN
       /\ PSELBEH \subseteq Behs /\ PSELBEH # {}
       /\ EMPTY \subseteq {"genome", "geno", "pheno", "bval", "gmod"}
       /\ TMAXSET \subseteq Nat /\ TMAXSET # {}
       /\ DOMAIN MixedMap = Cont

VARIABLES beh,       \* [Ops -> Behs]   environment: behaviour of each operator
          preinit,   \* BOOLEAN         environment: start state given to the constructor
          t_max,     \* Nat             configuration: the programme's deadline, handed to every call
          pc,        \* last action performed
          inited,    \* the programme has a stored starting state
          rep,       \* logbook replicate counter
          gen,       \* generations completed in the current replicate
          t_cur,     \* time index handed to operators and log calls
          work,      \* [Cont -> [alias, outer, inner]]  working state
          start,     \* [Cont -> Seq(Nat)]  edits suffered by the stored start state
          mcfg,      \* time index at which the mating configuration in flight was made (0 = none)
          ncall,     \* [Ops -> Nat] ghost: operator calls in the current replicate
          nlog,      \* ghost: log calls in the current replicate
          nreset     \* ghost: resets performed

vars == <<beh, preinit, t_max, pc, inited, rep, gen, t_cur, work, start, mcfg, ncall, nlog, nreset>>

\* an edit token names the operator and the time index it was given: 10 * t_cur + code
Code       == [psel |-> 1, mate |-> 2, eval |-> 3, ssel |-> 4]
Tok(op)    == 10 * t_cur + Code[op]
B(op, c)   == IF beh[op] = "mixed" THEN MixedMap[c] ELSE beh[op]
Clean      == [c \in Cont |-> <<>>]
CopyOf(s)  == [c \in Cont |-> [alias |-> FALSE, outer |-> <<>>, inner |-> s[c]]]
ZeroCalls  == [o \in Ops |-> 0]

GenPcs  == {"PSelect", "LogPSelect", "Mate", "LogMate", "Evaluate", "LogEvaluate", "SSelect", "LogSSelect"}
InitPcs == {"ResetRep", "EvalInit", "LogInit"}
AllPcs  == {"Idle", "Initialize", "Tick", "Done"} \cup InitPcs \cup GenPcs

---------------------------------------------------------------------------
Init ==
    /\ beh \in [Ops -> Behs]
    /\ beh["psel"] \in PSELBEH
    /\ preinit \in BOOLEAN
    /\ t_max \in TMAXSET
    /\ pc = "Idle"
    /\ inited = preinit
    /\ rep = 0 /\ gen = 0 /\ t_cur = 0
    /\ work = CopyOf(Clean)
    /\ start = Clean
    /\ mcfg = 0
    /\ ncall = ZeroCalls /\ nlog = 0 /\ nreset = 0

\* an operator call: what each container looks like afterwards
Call(op) ==
    /\ work' = [c \in Cont |->
                 CASE B(op, c) = "pure"    -> [alias |-> FALSE,
                                               outer |-> Append(work[c].outer, Tok(op)),
                                               inner |-> Append(work[c].inner, Tok(op))]
                   [] B(op, c) = "inplace" -> [alias |-> work[c].alias,
                                               outer |-> Append(work[c].outer, Tok(op)),
                                               inner |-> Append(work[c].inner, Tok(op))]
                   [] B(op, c) = "alias"   -> [alias |-> c \notin EMPTY,
                                               outer |-> <<>>,
                                               inner |-> start[c]]]
    /\ start' = [c \in Cont |-> IF B(op, c) = "inplace" /\ work[c].alias
                                 THEN Append(start[c], Tok(op)) ELSE start[c]]
    /\ ncall' = [ncall EXCEPT ![op] = @ + 1]

\* a log call observes and changes nothing but the log
Log == /\ nlog' = nlog + 1
       /\ UNCHANGED <<work, start, ncall>>

Env == UNCHANGED <<beh, preinit, t_max>>

AtRepBoundary == \/ pc \in {"Idle", "Initialize"}
                 \/ pc = "Tick" /\ gen = NGEN

Initialize ==
    /\ pc = "Idle" /\ ~inited
    /\ pc' = "Initialize" /\ inited' = TRUE
    /\ UNCHANGED <<rep, gen, t_cur, work, start, mcfg, ncall, nlog, nreset>> /\ Env

ResetRep ==
    /\ inited /\ AtRepBoundary /\ rep < NREP
    /\ pc' = "ResetRep"
    /\ rep' = rep + 1 /\ nreset' = nreset + 1
    /\ gen' = 0 /\ t_cur' = 0 /\ mcfg' = 0
    /\ work' = CopyOf(start)
    /\ ncall' = ZeroCalls /\ nlog' = 0
    /\ UNCHANGED <<inited, start>> /\ Env

EvalInit ==
    /\ pc = "ResetRep"
    /\ pc' = "EvalInit" /\ Call("eval")
    /\ UNCHANGED <<inited, rep, gen, t_cur, mcfg, nlog, nreset>> /\ Env

LogInit ==
    /\ pc = "EvalInit" /\ LOGINIT
    /\ pc' = "LogInit" /\ Log
    /\ UNCHANGED <<inited, rep, gen, t_cur, mcfg, nreset>> /\ Env

Tick ==
    /\ \/ pc = "LogInit"
       \/ pc = "EvalInit" /\ ~LOGINIT
       \/ pc = "LogSSelect"
    /\ pc' = "Tick"
    /\ t_cur' = t_cur + 1
    /\ gen' = IF pc = "LogSSelect" THEN gen + 1 ELSE gen
    /\ mcfg' = 0
    /\ UNCHANGED <<inited, rep, work, start, ncall, nlog, nreset>> /\ Env

PSelect ==
    /\ pc = "Tick" /\ gen < NGEN
    /\ pc' = "PSelect" /\ Call("psel") /\ mcfg' = t_cur
    /\ UNCHANGED <<inited, rep, gen, t_cur, nlog, nreset>> /\ Env

LogPSelect ==
    /\ pc = "PSelect"
    /\ pc' = "LogPSelect" /\ Log
    /\ UNCHANGED <<inited, rep, gen, t_cur, mcfg, nreset>> /\ Env

Mate ==
    /\ pc = "LogPSelect" /\ mcfg = t_cur
    /\ pc' = "Mate" /\ Call("mate")
    /\ UNCHANGED <<inited, rep, gen, t_cur, mcfg, nlog, nreset>> /\ Env

LogMate ==
    /\ pc = "Mate"
    /\ pc' = "LogMate" /\ Log
    /\ UNCHANGED <<inited, rep, gen, t_cur, mcfg, nreset>> /\ Env

Evaluate ==
    /\ pc = "LogMate"
    /\ pc' = "Evaluate" /\ Call("eval")
    /\ UNCHANGED <<inited, rep, gen, t_cur, mcfg, nlog, nreset>> /\ Env

LogEvaluate ==
    /\ pc = "Evaluate"
    /\ pc' = "LogEvaluate" /\ Log
    /\ UNCHANGED <<inited, rep, gen, t_cur, mcfg, nreset>> /\ Env

SSelect ==
    /\ pc = "LogEvaluate"
    /\ pc' = "SSelect" /\ Call("ssel")
    /\ UNCHANGED <<inited, rep, gen, t_cur, mcfg, nlog, nreset>> /\ Env

LogSSelect ==
    /\ pc = "SSelect"
    /\ pc' = "LogSSelect" /\ Log
    /\ UNCHANGED <<inited, rep, gen, t_cur, mcfg, nreset>> /\ Env

Finish ==
    /\ inited /\ AtRepBoundary /\ rep = NREP
    /\ pc' = "Done"
    /\ UNCHANGED <<inited, rep, gen, t_cur, work, start, mcfg, ncall, nlog, nreset>> /\ Env

\* evolve() has returned; the explicit stuttering step keeps TLC's deadlock check
\* meaningful: every state other than "Done" must have a successor
Terminated == pc = "Done" /\ UNCHANGED vars

Next == \/ Initialize \/ ResetRep \/ EvalInit \/ LogInit \/ Tick
        \/ PSelect \/ LogPSelect \/ Mate \/ LogMate
        \/ Evaluate \/ LogEvaluate \/ SSelect \/ LogSSelect \/ Finish
        \/ Terminated

Spec == Init /\ [][Next]_vars

---------------------------------------------------------------------------
(* Invariants checked by TLC *)

TokSeq(s) == \A i \in 1..Len(s) : \E o \in Ops, t \in 0..(NGEN + 1) : s[i] = 10 * t + Code[o]

TypeOK ==
    /\ beh \in [Ops -> Behs] /\ preinit \in BOOLEAN /\ inited \in BOOLEAN
    /\ t_max \in TMAXSET
    /\ pc \in AllPcs
    /\ rep \in 0..NREP /\ gen \in 0..NGEN /\ t_cur \in 0..(NGEN + 1)
    /\ mcfg \in 0..(NGEN + 1)
    /\ DOMAIN work = Cont /\ DOMAIN start = Cont
    /\ \A c \in Cont : /\ work[c].alias \in BOOLEAN
                       /\ TokSeq(work[c].outer) /\ TokSeq(work[c].inner) /\ TokSeq(start[c])
    /\ ncall \in [Ops -> Nat] /\ nlog \in Nat /\ nreset \in Nat

InRep == pc \in InitPcs \cup GenPcs \cup {"Tick"}

\* the time index is 0 at the initial evaluation, 1 in the first cycle, +1 per cycle
TimeIndex ==
    /\ pc \in InitPcs => t_cur = 0 /\ gen = 0
    /\ pc \in GenPcs \cup {"Tick"} => t_cur = gen + 1
    /\ pc \in GenPcs => gen < NGEN

\* the time index is independent of the deadline t_max: "starts at zero and grows by one
\* per cycle" -- it is not clamped, wrapped or otherwise bounded by t_max and runs past it
TimeIgnoresDeadline ==
    /\ pc \in GenPcs \cup {"Tick"} => (gen >= t_max => t_cur > t_max)
    /\ pc \in InitPcs => t_cur = 0

\* every operator exactly once per generation, in the order psel, mate, eval, ssel;
\* the evaluation operator once more at the start of the replicate
After(S) == IF pc \in S THEN 1 ELSE 0
OncePerGeneration ==
    InRep =>
      /\ ncall["psel"] = gen + After(GenPcs)
      /\ ncall["mate"] = gen + After(GenPcs \ {"PSelect", "LogPSelect"})
      /\ ncall["eval"] = gen + After({"Evaluate", "LogEvaluate", "SSelect", "LogSSelect"})
                             + (IF pc = "ResetRep" THEN 0 ELSE 1)
      /\ ncall["ssel"] = gen + After({"SSelect", "LogSSelect"})

\* a log call after every step (the initial evaluation only if LOGINIT)
Pending == IF pc \in {"PSelect", "Mate", "Evaluate", "SSelect"} \/ (pc = "EvalInit" /\ LOGINIT) THEN 1 ELSE 0
Unlogged == IF ~LOGINIT /\ pc # "ResetRep" THEN 1 ELSE 0
LogAfterEveryStep ==
    InRep => nlog + Pending + Unlogged
               = ncall["psel"] + ncall["mate"] + ncall["eval"] + ncall["ssel"]

\* the replicate counter advances once per replicate, never otherwise
RepCounter ==
    /\ rep = nreset
    /\ pc = "Done" => rep = NREP /\ (NREP > 0 => gen = NGEN)
    /\ (pc \in {"Idle", "Initialize"}) => rep = 0

\* the mating configuration handed to mate() is the one made in this generation
McfgFresh ==
    /\ pc \in {"PSelect", "LogPSelect", "Mate", "LogMate", "Evaluate", "LogEvaluate", "SSelect", "LogSSelect"} => mcfg = t_cur
    /\ pc \in InitPcs \cup {"Tick"} => mcfg = 0

\* every replicate starts from a copy of the stored start state that shares nothing with it
ReplicateStartsFromStart ==
    pc = "ResetRep" => work = CopyOf(start)

\* the stored start state is never modified -- unless the environment itself
\* returns its inner objects (alias) and then mutates what it received (inplace)
StartNeverModified ==
    \A c \in Cont :
        start[c] # <<>> => /\ \E o \in Ops : B(o, c) = "alias"
                           /\ \E o \in Ops : B(o, c) = "inplace"
StartCleanForHonestEnv ==
    (\A o \in Ops : beh[o] \in {"pure", "inplace"}) => start = Clean

\* nothing is called before the programme has a start state
NothingBeforeInit == ~inited => pc = "Idle"

\* a programme constructed with a start state (whatever it contains) never calls its
\* InitializationOperator; an empty start container has nothing to share and never changes
GivenStateIsKept ==
    /\ preinit => pc # "Initialize" /\ inited
    /\ \A c \in EMPTY : start[c] = <<>> /\ ~work[c].alias

\* action-level properties: environment fixed; t_cur only moves by +1 or back to 0;
\* rep only moves by +1 and only together with a reset
StepProps ==
    [][ /\ beh' = beh /\ preinit' = preinit /\ t_max' = t_max
        /\ t_cur' \in {t_cur, t_cur + 1, 0}
        /\ rep' \in {rep, rep + 1}
        /\ (rep' = rep + 1) <=> (pc' = "ResetRep")
        /\ (t_cur' = 0 /\ t_cur # 0) => pc' = "ResetRep"
      ]_vars

\* Termination (every behaviour reaches "Done") is established by the harness on the
\* dumped graph: it is acyclic apart from the Terminated self-loops, TLC's deadlock
\* check guarantees that only "Done" states lack a proper successor.
=============================================================================
