"""Regenerates /verif/MANIFEST.json from the table below (python -m mc.manifest)."""
import json, os, importlib, sys

VERIF = os.path.dirname(os.path.dirname(os.path.abspath(__file__)))
PY = "/venv/bin/python"

# property id -> (level text, level note, design ref)
CHECKS = {k: (v["text"], v["note"], v["ref"]) for k, v in json.load(open(os.path.join(VERIF, "mc", "levels.json"))).items()}

NOT_YET = "check not built yet in this session (design exists in DESIGN.md §3); will be claimed once its command exists"


def build():
    props = [json.loads(l) for l in open(os.path.join(VERIF, "properties.jsonl"))]
    checks = []
    na = []
    for p in props:
        pid = p["id"]
        if pid in CHECKS and os.path.exists(os.path.join(VERIF, "mc", "checks", pid.lower() + ".py")):
            text, note, ref = CHECKS[pid]
            try:
                sys.path.insert(0, VERIF)
                tech = None
                src = open(os.path.join(VERIF, "mc", "checks", pid.lower() + ".py")).read()
                import re
                m = re.search(r'^TECHNIQUE\s*=\s*\(?(.*?)\)?\s*\n(?=[A-Z_]+\s*=|\n)', src, re.S | re.M)
                if m:
                    tech = " ".join(s for s in re.findall(r'"([^"]*)"', m.group(1)))
                    tech = re.sub(r"\s+", " ", tech).strip()
            except Exception:
                tech = None
            checks.append({
                "property_id": pid,
                "quick_cmd": f"cd /verif && VERIF_TIER=quick {PY} -m mc.run {pid} --tier quick",
                "thorough_cmd": f"cd /verif && VERIF_TIER=thorough {PY} -m mc.run {pid} --tier thorough",
                "evidence_file": f"/verif/evidence/{pid}.json",
                "replay_cmd_template": f"cd /verif && {PY} -m mc.run {pid} --replay {{path}}",
                "engine": "mc",
                "level_claimed": {"category": "model_checking", "text": text, "design_ref": ref},
                "level_note": note,
                "technique": tech or "bounded exhaustive enumeration (explicit-state / stateless) on the real code against a reference model",
            })
        else:
            na.append({"property_id": pid, "reason": NOT_YET})
    man = {
        "version": 1,
        "setup_cmd": f"cd /verif && {PY} -c \"import mc.compat; print('mc ready; pybrops from', mc.compat.pybrops.__file__)\"",
        "hooks": {
            "guard": "PYBROPS_VERIF",
            "enable": "no source hooks are needed: every observation point is public API and the random generator is injected "
                      "through public rng arguments; checks import pybrops from /repo's working tree (sys.path[0]=/repo) with PYBROPS_VERIF=1 set",
            "baseline_off_cmd": "cd /repo && env -u PYBROPS_VERIF /venv/bin/python -m pytest -ra -q -p no:cacheprovider --timeout=900 --continue-on-collection-errors",
            "source_commits": [],
            "add_only": True,
        },
        "engines": [{
            "name": "mc", "path": "/verif/mc",
            "serves_properties": [c["property_id"] for c in checks],
            "kind_free_text": "hand-written explicit-state / stateless bounded-exhaustive explorer for Python (scripted random generator "
                              "as enumerated environment, prefix-replay DFS with deviation bound, BFS over operation histories with "
                              "canonical-state hashing, 16-way sharding) + TLC for the C20 protocol model",
        }],
        "checks": checks,
        "not_applicable": na,
        "notes": "All checks run /venv/bin/python on /repo's current working tree; evidence validated against EVIDENCE.schema.json; "
                 "known findings in /verif/known_findings.json (read-only at run time).",
    }
    with open(os.path.join(VERIF, "MANIFEST.json"), "w") as f:
        json.dump(man, f, indent=1)
    return man


if __name__ == "__main__":
    m = build()
    print("checks:", [c["property_id"] for c in m["checks"]], "not_applicable:", len(m["not_applicable"]))
