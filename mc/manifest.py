"""Regenerates /verif/MANIFEST.json from the table below (python -m mc.manifest)."""
import json, os, importlib, sys

VERIF = os.path.dirname(os.path.dirname(os.path.abspath(__file__)))
PY = "/venv/bin/python"

# property id -> (level text, level note, design ref)
CHECKS = {
    "C01": ("Every cross configuration in scope x every generator answer (crossover / none / boundary value per gamete cell, "
            "deviation-bounded) is executed on the real mate() of all seven protocols with provenance-coded parents and compared "
            "with a pedigree reference model and an independent mosaic predicate; a universally quantified property over "
            "configurations and generator states is decided by enumerating the small scope completely instead of sampling seeds.",
            "Scope: 3 taxa, 3 markers, <=2 crosses, nself<=1 (quick) / <=2 (thorough), deviation bound 2/3 beyond single-mating "
            "full enumeration; numpy uniform() returns multiples of 2^-53 in [0,1); compat shim restores removed numpy names.",
            "DESIGN.md §3 C01"),
    "C20": ("A TLA+ model of the evolve() call protocol (mc/tla/Loop.tla: 15 actions; the environment — 4^4 operator behaviours "
            "{pure, in-place, aliasing start, mixed} x start state given/initialised — chosen in Init; abstract heap of edit histories "
            "and sharing per container) is model checked by TLC (10 invariants, an action property, deadlock) for every NREP<=3 x NGEN<=2 x "
            "LOGINIT; the complete state graph is dumped and every behaviour is replayed on the real RecurrentSelectionBreedingProgram.evolve "
            "with instrumented operator/logbook subclasses, comparing at every call the label, t_cur, replicate counter, received container "
            "contents, sharing with start_* and the start_* history with the model, plus an object-identity data-flow oracle independent of the model.",
            "Scope: operator behaviours fixed over a run, containers dict->object->list, NREP<=3, NGEN<=2; verbose/kwargs/miscout contents not covered; "
            "trusted base: TLC 1.8 and its dot dump (node count cross-checked, termination checked on the graph), the harness's dot/TLA-value parser "
            "and the action->call binding table in c20.py.",
            "DESIGN.md §3 C20"),
}

NOT_YET = "check not built yet in this session (design exists in DESIGN.md §3); will be claimed once its command exists"


def build():
    props = [json.loads(l) for l in open(os.path.join(VERIF, "properties.jsonl"))]
    checks = []
    na = []
    for p in props:
        pid = p["id"]
        if pid in CHECKS and os.path.exists(os.path.join(VERIF, "mc", "checks", pid.lower() + ".py")):
            text, note, ref = CHECKS[pid]
            try:
                sys.path.insert(0, VERIF)
                tech = None
                src = open(os.path.join(VERIF, "mc", "checks", pid.lower() + ".py")).read()
                import re
                m = re.search(r'^TECHNIQUE\s*=\s*\(?(.*?)\)?\s*\n(?=[A-Z_]+\s*=|\n)', src, re.S | re.M)
                if m:
                    tech = " ".join(s for s in re.findall(r'"([^"]*)"', m.group(1)))
                    tech = re.sub(r"\s+", " ", tech).strip()
            except Exception:
                tech = None
            checks.append({
                "property_id": pid,
                "quick_cmd": f"cd /verif && VERIF_TIER=quick {PY} -m mc.run {pid} --tier quick",
                "thorough_cmd": f"cd /verif && VERIF_TIER=thorough {PY} -m mc.run {pid} --tier thorough",
                "evidence_file": f"/verif/evidence/{pid}.json",
                "replay_cmd_template": f"cd /verif && {PY} -m mc.run {pid} --replay {{path}}",
                "engine": "mc",
                "level_claimed": {"category": "model_checking", "text": text, "design_ref": ref},
                "level_note": note,
                "technique": tech or "bounded exhaustive enumeration (explicit-state / stateless) on the real code against a reference model",
            })
        else:
            na.append({"property_id": pid, "reason": NOT_YET})
    man = {
        "version": 1,
        "setup_cmd": f"cd /verif && {PY} -c \"import mc.compat; print('mc ready; pybrops from', mc.compat.pybrops.__file__)\"",
        "hooks": {
            "guard": "PYBROPS_VERIF",
            "enable": "no source hooks are needed: every observation point is public API and the random generator is injected "
                      "through public rng arguments; checks import pybrops from /repo's working tree (sys.path[0]=/repo) with PYBROPS_VERIF=1 set",
            "baseline_off_cmd": "cd /repo && env -u PYBROPS_VERIF /venv/bin/python -m pytest -ra -q -p no:cacheprovider --timeout=900 --continue-on-collection-errors",
            "source_commits": [],
            "add_only": True,
        },
        "engines": [{
            "name": "mc", "path": "/verif/mc",
            "serves_properties": [c["property_id"] for c in checks],
            "kind_free_text": "hand-written explicit-state / stateless bounded-exhaustive explorer for Python (scripted random generator "
                              "as enumerated environment, prefix-replay DFS with deviation bound, BFS over operation histories with "
                              "canonical-state hashing, 16-way sharding) + TLC for the C20 protocol model",
        }],
        "checks": checks,
        "not_applicable": na,
        "notes": "All checks run /venv/bin/python on /repo's current working tree; evidence validated against EVIDENCE.schema.json; "
                 "known findings in /verif/known_findings.json (read-only at run time).",
    }
    with open(os.path.join(VERIF, "MANIFEST.json"), "w") as f:
        json.dump(man, f, indent=1)
    return man


if __name__ == "__main__":
    m = build()
    print("checks:", [c["property_id"] for c in m["checks"]], "not_applicable:", len(m["not_applicable"]))
